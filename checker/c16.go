package main

// C16 — cluster wire codec: decoder table, field crossing, JSON-null safety, frame bound.

import (
	"fmt"
	"go/token"
	"go/types"
	"sort"
	"strings"

	"golang.org/x/tools/go/ssa"
)

func init() { register("C16", checkC16) }

const pkgProto = repoMod + "/fractal/protocol"
const pkgConn = repoMod + "/fractal/connection"

var wirePairs = []struct{ X, Msg string }{
	{"RequestQualities", "MsgRequestQualities"}, {"ReportQualities", "MsgReportQualities"}, {"Quality", "MsgQuality"},
	{"RequestProof", "MsgRequestProof"}, {"ReportProof", "MsgReportProof"}, {"Proof", "MsgProof"},
	{"RequestSignature", "MsgRequestSignature"}, {"ReportSignature", "MsgReportSignature"},
}

// fields of the in-memory side that deliberately do not cross the wire (documented)
var nonWire = map[string]string{
	"Proof.Ordinal":   "ordinal is a local wallet notion; set to UnknownOrdinal on receipt",
	"Proof.Error":     "errors are not reported as proofs",
	"Proof.PublicKey": "equals Proof.PlotPublicKey, restored from it",
	"Quality.Error":   "errors are not reported as qualities",
}

// fieldNamesRead: names of struct fields (of non-Msg types, or of Msg types when wantMsg) read in the slice
func fieldNamesRead(s *slice, wantMsg bool) map[string]bool {
	out := map[string]bool{}
	for v := range s.vals {
		t, f, _, ok := fieldOfAddr(v)
		if !ok {
			continue
		}
		isMsg := strings.Contains(t, ".Msg")
		if isMsg == wantMsg {
			out[f] = true
		}
	}
	return out
}

func structFields(c *Ctx, pkgPath, name string) []string {
	p := c.SSA[pkgPath]
	if p == nil {
		return nil
	}
	obj := p.Pkg.Scope().Lookup(name)
	if obj == nil {
		return nil
	}
	st, ok := obj.Type().Underlying().(*types.Struct)
	if !ok {
		return nil
	}
	var out []string
	for i := 0; i < st.NumFields(); i++ {
		out = append(out, st.Field(i).Name())
	}
	return out
}

func checkC16(c *Ctx) Meta {
	c.Rule("C16-TABLE", "every MsgType constant except Reserved has a DecodeMessage case constructing a type whose MsgType() returns that constant; EncodeMessage prefixes msg.MsgType(); the type prefix is bounds-checked before it is read and before the body is sliced", 9)
	c.Rule("C16-CROSS", "every wire field is written by Msg() from the same-named in-memory field and read back by SetMsg() into it; every in-memory field crosses the wire or is a documented non-wire field", 60)
	c.Rule("C16-NILJSON", "a pointer that JSON decoding can leave nil (\"proof\":null, \"qualities\":[null]) is nil-tested before it is dereferenced, in the decoder and in every function it is handed to", 2)
	c.Rule("C16-ERR", "every decoder error inside SetMsg/SetBytes/DecodeMessage (uuid, hash, hex, group element, JSON) is returned", 30)
	c.Rule("C16-FRAME", "the received frame size is compared with the receive limit, and oversized frames are rejected, before the frame buffer is allocated; the default limit is a real bound", 2)
	c.Rule("C16-ENCNIL", "encoding does not dereference optional pointer fields of the proof (a pool-contract proof has no pool public key) without a nil test, and carries the alternative field", 2)

	// ---- TABLE
	checkDecodeTable(c)

	// ---- CROSS
	for _, pr := range wirePairs {
		msgFields := structFields(c, pkgProto, pr.Msg)
		if len(msgFields) == 0 {
			c.Bad("C16-CROSS", pr.X+":anchor", "", "reason=anchor-missing: type "+pr.Msg)
			continue
		}
		enc := c.MustFn("C16-CROSS", "fractal/protocol", "(*"+pr.X+").Msg")
		dec := c.MustFn("C16-CROSS", "fractal/protocol", "(*"+pr.X+").SetMsg")
		if enc == nil || dec == nil {
			continue
		}
		// encoder: each Msg field stored from same-named field
		encStores := map[string]*ssa.Store{}
		for _, a := range fieldAccesses(enc) {
			if a.Kind == "store" && a.Type == pkgProto+"."+pr.Msg {
				encStores[a.Field] = a.In.(*ssa.Store)
			}
		}
		for _, f := range msgFields {
			key := pr.X + ".Msg:" + f
			st := encStores[f]
			if st == nil {
				c.Bad("C16-CROSS", key, c.Pos(enc.Pos()), "wire field "+f+" is never written by the encoder: the value is lost in transit")
				continue
			}
			src := fieldNamesRead(backSlice(st.Val), false)
			if src[f] || (f == "TaskID" && src["TaskID"]) {
				c.OK("C16-CROSS", key, c.Pos(st.Pos()), "written from in-memory field "+f)
			} else {
				c.Bad("C16-CROSS", key, c.Pos(st.Pos()), fmt.Sprintf("wire field %s is written from %v, not from the in-memory field of the same name (same-typed fields swapped?)", f, keysOf(src)))
			}
		}
		// decoder: each in-memory store derives from same-named Msg field
		decStores := map[string][]*ssa.Store{}
		for _, a := range fieldAccesses(dec) {
			if a.Kind == "store" && !strings.Contains(a.Type, ".Msg") {
				decStores[a.Field] = append(decStores[a.Field], a.In.(*ssa.Store))
			}
		}
		for _, f := range msgFields {
			key := pr.X + ".SetMsg:" + f
			sts := decStores[f]
			if len(sts) == 0 {
				c.Bad("C16-CROSS", key, c.Pos(dec.Pos()), "wire field "+f+" is never stored into the in-memory message by the decoder")
				continue
			}
			ok := false
			var got []string
			for _, st := range sts {
				src := fieldNamesRead(backSlice(st.Val), true)
				got = append(got, keysOf(src)...)
				if src[f] {
					ok = true
				}
			}
			if ok {
				c.OK("C16-CROSS", key, c.Pos(sts[0].Pos()), "restored from wire field "+f)
			} else {
				c.Bad("C16-CROSS", key, c.Pos(sts[0].Pos()), fmt.Sprintf("in-memory field %s is restored from wire field(s) %v, not from %s", f, got, f))
			}
		}
	}
	// codec agreement per field: what the encoder applies must be undone by what the decoder applies
	c.Rule("C16-CODEC", "for every wire field the decoder applies the inverse of the encoder's text codec (hex<->hex, uuid.String<->uuid.Parse, Hash.String/hex<->DecodeStringToHash, big.Int.Bytes<->SetBytes)", 20)
	for _, pr := range wirePairs {
		enc := c.Fn("fractal/protocol", "(*"+pr.X+").Msg")
		dec := c.Fn("fractal/protocol", "(*"+pr.X+").SetMsg")
		if enc == nil || dec == nil {
			continue
		}
		encStores := map[string]*ssa.Store{}
		for _, a := range fieldAccesses(enc) {
			if a.Kind == "store" && a.Type == pkgProto+"."+pr.Msg {
				encStores[a.Field] = a.In.(*ssa.Store)
			}
		}
		decStores := map[string][]*ssa.Store{}
		for _, a := range fieldAccesses(dec) {
			if a.Kind == "store" && !strings.Contains(a.Type, ".Msg") {
				decStores[a.Field] = append(decStores[a.Field], a.In.(*ssa.Store))
			}
		}
		for _, f := range structFields(c, pkgProto, pr.Msg) {
			st := encStores[f]
			if st == nil || len(decStores[f]) == 0 {
				continue
			}
			e := codecOps(backSlice(st.Val), true)
			d := map[string]bool{}
			// prefer the store(s) restored from this wire field alone (a composite such as the whole
			// ProofOfSpace is restored from several wire fields and would mix their codecs)
			var pure []*ssa.Store
			for _, ds := range decStores[f] {
				src := fieldNamesRead(backSlice(ds.Val), true)
				if len(src) == 1 && src[f] {
					pure = append(pure, ds)
				}
			}
			if len(pure) == 0 {
				pure = decStores[f]
			}
			for _, ds := range pure {
				for k := range codecOps(backSlice(ds.Val), false) {
					d[k] = true
				}
			}
			key := pr.X + ":" + f
			if why := codecMismatch(e, d); why != "" {
				c.Bad("C16-CODEC", key, c.Pos(decStores[f][0].Pos()), "encoder applies "+fmt.Sprint(keysOf(e))+", decoder applies "+fmt.Sprint(keysOf(d))+": "+why)
			} else {
				c.OK("C16-CODEC", key, c.Pos(st.Pos()), "encoder "+fmt.Sprint(keysOf(e))+" / decoder "+fmt.Sprint(keysOf(d)))
			}
		}
	}

	// in-memory fields that never cross
	for _, spec := range []struct {
		x, typ, pkg string
		wire        []string
	}{
		{"Proof", "ProofOfSpace", "github.com/massnetorg/mass-core/poc/chiapos", structFields(c, pkgProto, "MsgProof")},
		{"Quality", "WorkSpaceQuality", pkgEngineV2, structFields(c, pkgProto, "MsgQuality")},
	} {
		wire := map[string]bool{}
		for _, f := range spec.wire {
			wire[f] = true
		}
		for _, f := range structFields(c, spec.pkg, spec.typ) {
			key := spec.x + ":in-memory-field-crosses:" + f
			if wire[f] {
				c.OK("C16-CROSS", key, "", "has a wire field")
				continue
			}
			if why, ok := nonWire[spec.x+"."+f]; ok {
				c.OK("C16-CROSS", key, "", "documented non-wire field: "+why)
				continue
			}
			c.Bad("C16-CROSS", key, "", "field "+spec.typ+"."+f+" of the in-memory message has no wire field: a message carrying it does not decode to an equal message")
		}
	}

	// ---- NILJSON
	checkNilJSON(c)

	// ---- ERR
	var scope []*ssa.Function
	for fn := range c.AllFuncs {
		if pkgOf(fn) != pkgProto {
			continue
		}
		n := fn.Name()
		if n == "SetMsg" || n == "SetBytes" || n == "DecodeMessage" || strings.HasPrefix(n, "new") || strings.HasPrefix(n, "New") || n == "msgTypeFromBytes" {
			scope = append(scope, fn)
		}
	}
	sort.Slice(scope, func(i, j int) bool { return scope[i].String() < scope[j].String() })
	runErrflow(c, errflowCfg{rule: "C16-ERR", scope: scope,
		classK: func(fn *ssa.Function, call *ssa.Call) bool { return true },
		strict: func(fn *ssa.Function, call *ssa.Call) bool { return true }})

	// ---- OWN: a queued frame is not overwritten by the next one (the C17 ownership rule as the premise of "lossless")
	c.Rule("C16-DECNIL", "a decoded message is well-formed: no SetMsg stores a possibly-nil pointer into a pointer-typed field of the message it fills (an absent or empty wire field is an error, not a nil target the receivers dereference) — except the fields the encoder treats as optional", 4)
	checkDecodedPointersNonNil(c, "C16-DECNIL")
	c.Rule("C16-OWN", "a received frame keeps its bytes until it is decoded: every frame handed to the receive queue owns a freshly allocated buffer", 1)
	c.pushAlias("C17-OWN", "C16-OWN")
	checkFrameOwnership(c)
	c.popAlias()
	c.Rule("C16-WRITER", "frames are written whole: only the send routine writes to the connection's socket (every function reaching a raw net.Conn.Write is called from sendRoutine alone), so a keepalive or control frame can never land between the size prefix and the body of another frame", 1)
	checkSingleWriter(c, "C16-WRITER")
	checkRoutineOwnedState(c, "C16-WRITER")
	// ---- RECV: the receiver sees decode failures as errors, never as a nil message
	c.Rule("C16-RECV", "an undecodable frame reaches the receiver loop as an error: readRemoteMessage returns DecodeMessage's error (never a nil message with a nil error), and messageProcessor touches the message only behind the error test", 2)
	if f := c.MustFn("C16-RECV", "fractal", "(*MessageReceiver).readRemoteMessage"); f != nil {
		key := "readRemoteMessage:decode-error-returned"
		decs := callsIn(f, pkgProto+".DecodeMessage")
		if len(decs) == 0 {
			c.Bad("C16-RECV", key, c.Pos(f.Pos()), "reason=anchor-missing: DecodeMessage call")
		}
		for _, d := range decs {
			// on the error edge of DecodeMessage no return may report a nil error
			errs := errResults(d)
			direct := len(errs) > 0 && flowsToReturn(f, aliasesForward(f, errs[0])) && len(nilTestsOf(f, errs[0])) == 0
			if direct {
				// …on every return that can follow the decoding, not only on one of them (a return that
				// hands the message on with a constant nil error passes a zero-valued message of a frame
				// whose body did not decode)
				al := aliasesForward(f, errs[0])
				after := reach(f, d, nil, nil)
				for _, ret := range returnsOf(f) {
					if !after(ret) || len(ret.Results) == 0 {
						continue
					}
					last := ret.Results[len(ret.Results)-1]
					carries := al[last]
					if !carries {
						valueOrigins(f, last, func(r ssa.Value) {
							if al[r] {
								carries = true
							}
						})
					}
					if !carries {
						direct = false
					}
				}
			}
			if direct {
				c.OK("C16-RECV", key, c.Pos(d.Pos()), "DecodeMessage's results are returned as they are")
				continue
			}
			if len(errs) == 0 || len(nilTestsOf(f, errs[0])) == 0 {
				c.Bad("C16-RECV", key, c.Pos(d.Pos()), "DecodeMessage's error is neither returned nor tested: a malformed frame yields a nil message with a nil error and the receiver loop dereferences it (process crash on peer input)")
				continue
			}
			r := reach(f, d, errorEdgeCut(f, d, false), nil)
			bad := false
			for _, ret := range returnsOf(f) {
				if r(ret) && isNilErrorReturn(ret) {
					bad = true
				}
			}
			if bad {
				c.Bad("C16-RECV", key, c.Pos(d.Pos()), "after DecodeMessage failed the function can still return a nil error (e.g. a shadowed named result): the receiver loop then dereferences a nil message")
			} else {
				c.OK("C16-RECV", key, c.Pos(d.Pos()), "every return after a failed DecodeMessage carries a non-nil error")
			}
		}
	}
	if f := c.MustFn("C16-RECV", "fractal", "(*MessageReceiver).messageProcessor"); f != nil {
		key := "messageProcessor:message-used-only-after-error-test"
		rd := firstCall(f, "(*"+repoMod+"/fractal.MessageReceiver).readRemoteMessage")
		if rd == nil {
			// the small reader folded into the loop: the message is DecodeMessage's own result
			rd = firstCall(f, pkgProto+".DecodeMessage")
		}
		if rd == nil {
			c.Bad("C16-RECV", key, c.Pos(f.Pos()), "reason=anchor-missing: readRemoteMessage call")
		} else {
			msg := resultOf(rd, 0)
			var uses []ssa.Instruction
			for al := range aliasesForward(f, msg) {
				if refs := al.Referrers(); refs != nil {
					for _, r := range *refs {
						if cl, ok := r.(*ssa.Call); ok && cl.Call.IsInvoke() && cl.Call.Value == al {
							uses = append(uses, cl)
						}
						if sd, ok := r.(*ssa.Send); ok {
							uses = append(uses, sd)
						}
					}
				}
			}
			if ok, at := unreachableWhenCut(f, errorEdgeCut(f, rd, false), uses); ok && len(uses) > 0 {
				c.OK("C16-RECV", key, c.Pos(rd.Pos()), fmt.Sprintf("%d uses of the message, all behind err == nil", len(uses)))
			} else if len(uses) == 0 {
				c.Bad("C16-RECV", key, c.Pos(rd.Pos()), "reason=anchor-missing: uses of the received message")
			} else {
				c.Bad("C16-RECV", key, c.Pos(at.Pos()), "the received message is used although readRemoteMessage reported an error")
			}
		}
	}
	// the default receive limit really bounds: a limit equal to the largest representable size makes the
	// size test vacuous
	if f := c.MustFn("C16-FRAME", "fractal/connection", "defaultOptions"); f != nil {
		key := "defaultOptions:receive-limit-is-a-real-bound"
		val := ""
		for _, a := range fieldAccesses(f) {
			if a.Kind == "store" && a.Field == "maxRecvMsgSize" {
				if k, ok := strip(a.In.(*ssa.Store).Val).(*ssa.Const); ok && k.Value != nil {
					val = k.Value.ExactString()
				} else {
					val = "?"
				}
			}
		}
		switch {
		case val == "":
			c.Bad("C16-FRAME", key, c.Pos(f.Pos()), "the default options set no receive limit (0 rejects every frame or, compared as a bound, admits none)")
		case val == "?":
			c.Unk("C16-FRAME", key, c.Pos(f.Pos()), "the default receive limit is not a constant")
		case val == "4294967295" || len(val) > 10:
			c.Bad("C16-FRAME", key, c.Pos(f.Pos()), "the default receive limit is "+val+", the largest size a frame header can announce: `size > limit` is never true, so a 4-byte header makes the receiver allocate up to 4 GiB")
		default:
			c.OK("C16-FRAME", key, c.Pos(f.Pos()), "default receive limit "+val+" bytes (< 2^32-1)")
		}
	}

	// ---- FRAME
	// a frame read that failed is not resumed: io.ReadFull drops the bytes it already consumed when it fails (a
	// read deadline, a short read), so reading "again" from its failure edge continues in the middle of a frame and
	// every later length prefix is garbage
	{
		n := 0
		var fns []*ssa.Function
		for fn := range c.AllFuncs {
			if fn != nil && fn.Blocks != nil && pkgOf(outermost(fn)) == repoMod+"/fractal/connection" {
				fns = append(fns, fn)
			}
		}
		sort.Slice(fns, func(i, j int) bool { return FuncName(fns[i]) < FuncName(fns[j]) })
		for _, fn := range fns {
			for _, rd := range callsInShallow(fn, "io.ReadFull", "io.ReadAtLeast") {
				n++
				key := FuncName(fn) + ":failed-read-not-resumed"
				if reach(fn, rd, errorEdgeCut(fn, rd, false), nil)(rd) {
					c.Bad("C16-FRAME", key, c.Pos(rd.Pos()), "the same io.ReadFull is reachable again from its own failure edge (a retry loop): the bytes consumed by the failed attempt are lost, the next attempt starts in the middle of the frame and the stream is decoded out of step from then on")
				} else {
					c.OK("C16-FRAME", key, c.Pos(rd.Pos()), "a failed read leaves the function; it is never repeated on the same stream position")
				}
			}
		}
		if n == 0 {
			c.Bad("C16-FRAME", "connection:read-anchor", "", "reason=anchor-missing: no io.ReadFull in fractal/connection")
		}
	}
	if f := c.MustFn("C16-FRAME", "fractal/connection", "(*Conn).receiveRoutine"); f != nil {
		key := "receiveRoutine:size-bounded-before-allocation"
		// the announced size: the header decoder, or the big-endian read itself where the decoder was folded in
		sizeIDs := []string{pkgConn + ".bytesToMsgSize", "(encoding/binary.bigEndian).Uint32"}
		var makes []ssa.Instruction
		allInstrsNew(f, func(in ssa.Instruction) {
			if ms, ok := in.(*ssa.MakeSlice); ok {
				if backSlice(ms.Len).hasCallTo(sizeIDs...) {
					makes = append(makes, in)
				}
			}
		})
		if len(makes) > 0 {
			// reading one frame may sit in a helper the reference tree does not have: the bound is judged
			// in the function that allocates
			f = hostFn(f, makes[0])
		}
		tests := cmpTests(f, func(bo *ssa.BinOp) bool {
			if bo.Op != token.GTR && bo.Op != token.LSS && bo.Op != token.GEQ && bo.Op != token.LEQ {
				return false
			}
			sx, sy := backSlice(bo.X), backSlice(bo.Y)
			return (sx.hasCallTo(sizeIDs...) && sy.hasField(pkgConn+".options", "maxRecvMsgSize")) || (sy.hasCallTo(sizeIDs...) && sx.hasField(pkgConn+".options", "maxRecvMsgSize"))
		})
		if len(makes) == 0 || len(tests) == 0 {
			c.Bad("C16-FRAME", key, c.Pos(f.Pos()), "no comparison of the received size with maxRecvMsgSize guards the allocation of the frame buffer")
		} else {
			ok := false
			for _, cutTrue := range []bool{true, false} {
				if u, _ := unreachableWhenCut(f, boolEdgeCut(tests, cutTrue), makes); u {
					ok = true
				}
			}
			// polarity: the edge leading to the allocation must be the "not greater" one
			okPol := true
			for _, t := range tests {
				bo := t.If.Cond.(*ssa.BinOp)
				sizeLeft := backSlice(bo.X).hasCallTo(sizeIDs...)
				greater := (bo.Op == token.GTR && sizeLeft) || (bo.Op == token.LSS && !sizeLeft) || (bo.Op == token.GEQ && sizeLeft) || (bo.Op == token.LEQ && !sizeLeft)
				var allocSide *ssa.BasicBlock
				if greater {
					allocSide = t.FalseSucc
				} else {
					allocSide = t.TrueSucc
				}
				r := reach(f, nil, func(from, to *ssa.BasicBlock) bool { return from == t.If.Block() && to == allocSide }, nil)
				for _, m := range makes {
					if r(m) {
						okPol = false
					}
				}
			}
			// the value compared must be the very value allocated (modulo lossless conversions): arithmetic
			// on the peer-chosen size before the comparison can wrap around
			okSame := true
			for _, t := range tests {
				bo := t.If.Cond.(*ssa.BinOp)
				side := bo.X
				if !backSlice(bo.X).hasCallTo(sizeIDs...) {
					side = bo.Y
				}
				for _, m := range makes {
					if !sameModuloLosslessConv(side, m.(*ssa.MakeSlice).Len) {
						okSame = false
					}
				}
			}
			if ok && okPol && !okSame {
				c.Bad("C16-FRAME", key, c.Pos(makes[0].Pos()), "the value compared with maxRecvMsgSize is not the size that is allocated but an arithmetic expression of it: for sizes near 2^32 the expression wraps, the test passes and about 4 GiB are allocated")
			} else if ok && okPol {
				c.OK("C16-FRAME", key, c.Pos(makes[0].Pos()), "make([]byte, size) only on the size <= maxRecvMsgSize edge")
			} else {
				c.Bad("C16-FRAME", key, c.Pos(makes[0].Pos()), "a peer-chosen frame size reaches make([]byte, size) without having been bounded by maxRecvMsgSize (memory exhaustion)")
			}
		}
	}

	// ---- ENCNIL
	checkEncodeOptionalPointers(c)

	return Meta{
		Explanation: "Decoder/encoder tables extracted from the SSA of fractal/protocol: switch cases vs MsgType() results, field-by-field crossing in both directions keyed by field name, nil-safety of JSON-decoded pointers across calls, error flow of every decoder, and the frame bound before allocation in the connection's receive loop.",
		NotDecided:  "equality after round trip for all values (needs injectivity of hex/uuid/group-element encoders and big.Int sign handling); totality of third-party decoders (encoding/json, uuid, chiapos cgo).",
		Trusted:     []string{"go/ssa", "encoding/json leaves absent or null pointers nil and never panics", "frozen table of message pairs and documented non-wire fields"},
	}
}

func keysOf(m map[string]bool) []string {
	var out []string
	for k := range m {
		out = append(out, k)
	}
	sort.Strings(out)
	return out
}

func checkDecodeTable(c *Ctx) {
	rule := "C16-TABLE"
	dec := c.MustFn(rule, "fractal/protocol", "DecodeMessage")
	enc := c.MustFn(rule, "fractal/protocol", "EncodeMessage")
	p := c.SSA[pkgProto]
	if dec == nil || enc == nil || p == nil {
		return
	}
	// constants of type MsgType
	consts := map[string]string{}
	for _, n := range p.Pkg.Scope().Names() {
		if k, ok := p.Pkg.Scope().Lookup(n).(*types.Const); ok && strings.HasSuffix(k.Type().String(), ".MsgType") {
			consts[n] = k.Val().ExactString()
		}
	}
	names := []string{}
	for n := range consts {
		names = append(names, n)
	}
	sort.Strings(names)
	typVal := func() ssa.Value {
		cs := callsIn(dec, pkgProto+".msgTypeFromBytes")
		if len(cs) != 1 {
			return nil
		}
		return resultOf(cs[0], 0)
	}()
	for _, n := range names {
		if n == "MsgTypeReserved" {
			continue
		}
		key := "DecodeMessage:case:" + n
		var alloc *ssa.Alloc
		// the switch over the type tag may sit in a helper the reference tree does not have (summary.go)
		allInstrsDeep(dec, nil, func(in ssa.Instruction) {
			bo, ok := in.(*ssa.BinOp)
			if !ok || bo.Op != token.EQL {
				return
			}
			k, ok := bo.Y.(*ssa.Const)
			if !ok || k.Value == nil || k.Value.ExactString() != consts[n] || !strings.HasSuffix(k.Type().String(), ".MsgType") {
				return
			}
			if typVal != nil && !backSlice(bo.X).has(typVal) {
				return
			}
			for _, t := range boolTestsOf(bo.Parent(), bo) {
				for _, i2 := range t.TrueSucc.Instrs {
					if a, ok := i2.(*ssa.Alloc); ok && a.Heap {
						alloc = a
					}
				}
			}
		})
		if alloc == nil {
			c.Bad(rule, key, c.Pos(dec.Pos()), "message type "+n+" has no decoder case: a well-formed frame of that type is rejected as unknown")
			continue
		}
		tn := alloc.Type().(*types.Pointer).Elem().(*types.Named).Obj().Name()
		mt := c.Fn("fractal/protocol", "(*"+tn+").MsgType")
		got := ""
		if mt != nil {
			for _, r := range returnsOf(mt) {
				if k, ok := strip(r.Results[0]).(*ssa.Const); ok && k.Value != nil {
					got = k.Value.ExactString()
				}
			}
		}
		if got == consts[n] {
			c.OK(rule, key, c.Pos(alloc.Pos()), "constructs "+tn+", whose MsgType() is "+n)
		} else {
			c.Bad(rule, key, c.Pos(alloc.Pos()), fmt.Sprintf("the case for %s (=%s) constructs %s, whose MsgType() returns %s: a message of one type is decoded as another", n, consts[n], tn, got))
		}
	}
	// every message type implementing Message is constructed by some case
	// EncodeMessage prefixes msg.MsgType()
	{
		key := "EncodeMessage:prefix-is-own-type"
		ok := false
		// the two prefix bytes come from msgTypeToBytes(msg.MsgType()) or from a direct big-endian
		// PutUint16 of the same value (the helper inlined)
		allInstrsDeep(enc, nil, func(in ssa.Instruction) {
			cl, isC := in.(*ssa.Call)
			if !isC || len(cl.Call.Args) == 0 {
				return
			}
			if !isCall(cl, pkgProto+".msgTypeToBytes") && !(callName(cl) == "PutUint16" && strings.Contains(calleeID(cl), "encoding/binary.bigEndian")) {
				return
			}
			for v := range backSlice(cl.Call.Args[len(cl.Call.Args)-1]).vals {
				if inv, isCall := v.(*ssa.Call); isCall && inv.Call.IsInvoke() && inv.Call.Method.Name() == "MsgType" && inv.Call.Value == ssa.Value(enc.Params[0]) {
					ok = true
				}
			}
		})
		// prefix comes first in the join
		if ok {
			c.OK(rule, key, c.Pos(enc.Pos()), "prefix = msgTypeToBytes(msg.MsgType())")
		} else {
			c.Bad(rule, key, c.Pos(enc.Pos()), "the type prefix written by EncodeMessage is not the message's own MsgType()")
		}
	}
	// bounds check in msgTypeFromBytes and slicing after success
	if f := c.MustFn(rule, "fractal/protocol", "msgTypeFromBytes"); f != nil {
		key := "msgTypeFromBytes:length-checked-before-read"
		tests := cmpTests(f, func(bo *ssa.BinOp) bool {
			sx := backSlice(bo.X)
			return (bo.Op == token.LSS || bo.Op == token.GEQ || bo.Op == token.LEQ || bo.Op == token.GTR) && sx.hasCallTo("builtin.len")
		})
		reads := callInstrs(callsIn(f, "(encoding/binary.bigEndian).Uint16"))
		ok := false
		for _, cutTrue := range []bool{true, false} {
			if u, _ := unreachableWhenCut(f, boolEdgeCut(tests, cutTrue), reads); u {
				ok = true
			}
		}
		if len(tests) > 0 && len(reads) > 0 && ok {
			c.OK(rule, key, c.Pos(f.Pos()), "Uint16(bs) only behind the len(bs) test")
		} else {
			c.Bad(rule, key, c.Pos(f.Pos()), "the two type bytes are read without a length check: a frame shorter than 2 bytes panics the decoder")
		}
	}
	{
		key := "DecodeMessage:body-sliced-after-type-check"
		cs := callsIn(dec, pkgProto+".msgTypeFromBytes")
		var slices []ssa.Instruction
		allInstrsNew(dec, func(in ssa.Instruction) {
			if sl, ok := in.(*ssa.Slice); ok {
				isData := false
				valueOrigins(in.Parent(), sl.X, func(r ssa.Value) {
					if r == ssa.Value(dec.Params[0]) {
						isData = true
					}
				})
				if isData {
					slices = append(slices, in)
				}
			}
		})
		if len(cs) == 1 && len(slices) > 0 {
			// the prefix test and the slicing may sit together in a phase helper the reference tree
			// does not have: the rule is evaluated in the function that holds them
			host := hostFn(dec, cs[0])
			if u, _ := unreachableWhenCut(host, errorEdgeCut(host, cs[0], false), slices); u {
				c.OK(rule, key, c.Pos(cs[0].Pos()), "data[2:] only after msgTypeFromBytes succeeded")
			} else {
				c.Bad(rule, key, c.Pos(slices[0].Pos()), "data[2:] can be evaluated although the frame is shorter than the type prefix")
			}
		} else {
			c.Bad(rule, key, c.Pos(dec.Pos()), "reason=anchor-missing: msgTypeFromBytes call / body slice")
		}
	}
}

// unguardedDeref: parameter (or value) v is dereferenced on a path where it may be nil; returns the
// offending instruction. Follows static callees to depth.
func unguardedDeref(c *Ctx, fn *ssa.Function, v ssa.Value, depth int) (ssa.Instruction, string) {
	tests := nilTestsOf(fn, v)
	cut := func(from, to *ssa.BasicBlock) bool {
		for _, t := range tests {
			if from == t.If.Block() && to == t.NonNil && t.NonNil != t.NilSucc {
				return true
			}
		}
		return false
	}
	var start ssa.Instruction
	if in, ok := v.(ssa.Instruction); ok {
		start = in
	}
	r := reach(fn, start, cut, nil)
	// tests applied to another load of the very same location (msg.Qualities[i] read twice) guard
	// the uses they dominate
	var eqTests []nilTest
	for _, e := range equivalentLoads(fn, v) {
		eqTests = append(eqTests, nilTestsOf(fn, e)...)
	}
	guardedByEq := func(u ssa.Instruction) bool {
		for _, t := range eqTests {
			if len(t.NonNil.Preds) == 1 && t.NonNil != t.NilSucc && t.NonNil.Dominates(u.Block()) {
				return true
			}
		}
		return false
	}
	for a := range aliasesForward(fn, v) {
		refs := a.Referrers()
		if refs == nil {
			continue
		}
		for _, u := range *refs {
			if !r(u) || guardedByEq(u) {
				continue
			}
			switch x := u.(type) {
			case *ssa.FieldAddr:
				if x.X == a {
					return u, "field access " + x.String()
				}
			case *ssa.UnOp:
				if x.Op == token.MUL && x.X == a {
					return u, "load through the pointer"
				}
			case *ssa.Call:
				if depth <= 0 {
					continue
				}
				callee := x.Call.StaticCallee()
				if callee == nil || callee.Blocks == nil || !inRepo(callee) {
					continue
				}
				for i, arg := range x.Call.Args {
					if arg == a && i < len(callee.Params) {
						if in2, why := unguardedDeref(c, callee, callee.Params[i], depth-1); in2 != nil {
							return in2, "passed to " + FuncName(callee) + " → " + why
						}
					}
				}
			}
		}
	}
	return nil, ""
}

func checkNilJSON(c *Ctx) {
	rule := "C16-NILJSON"
	// sources: pointer-to-struct typed fields of Msg* types and elements of []*T fields, loaded in protocol functions
	n := 0
	for fn := range c.AllFuncs {
		if pkgOf(fn) != pkgProto {
			continue
		}
		allInstrsShallow(fn, func(in ssa.Instruction) {
			ld, ok := in.(*ssa.UnOp)
			if !ok || ld.Op != token.MUL {
				return
			}
			pt, ok := ld.Type().(*types.Pointer)
			if !ok {
				return
			}
			if _, isStruct := pt.Elem().Underlying().(*types.Struct); !isStruct {
				return
			}
			src := ""
			switch a := ld.X.(type) {
			case *ssa.FieldAddr:
				if t, f, _, ok := fieldOfAddr(a); ok && strings.Contains(t, ".Msg") {
					src = shortType(t) + "." + f
				}
			case *ssa.IndexAddr:
				if t, f, _, ok := fieldOfValue(a.X); ok && strings.Contains(t, ".Msg") {
					src = shortType(t) + "." + f + "[i]"
				}
			}
			if src == "" {
				return
			}
			// only the decoding direction: the Msg value comes from a parameter (filled by json.Unmarshal)
			if !strings.HasPrefix(fn.Name(), "Set") && !strings.HasPrefix(fn.Name(), "New") {
				return
			}
			n++
			key := FuncName(fn) + ":" + src
			if at, why := unguardedDeref(c, fn, ld, 3); at != nil {
				c.Bad(rule, key, c.Pos(at.Pos()), "the JSON-decoded pointer "+src+" can be nil (\"null\" in the frame) and is dereferenced without a nil test: "+why+" — a peer can panic the receiver with one frame")
			} else {
				c.OK(rule, key, c.Pos(ld.Pos()), "nil-tested before every dereference (including callees)")
			}
		})
	}
	if n == 0 {
		c.Bad(rule, "anchor", "", "reason=anchor-missing: no JSON-decoded pointer found in the decoders")
	}
}

// checkEncodeOptionalPointers: in Proof.Msg()/Quality.Msg() the optional PoolPublicKey pointer
// (nil for pool-contract plots, which carry a puzzle hash instead) is not dereferenced unguarded.
func checkEncodeOptionalPointers(c *Ctx) {
	rule := "C16-ENCNIL"
	for _, x := range []string{"Proof", "Quality"} {
		f := c.MustFn(rule, "fractal/protocol", "(*"+x+").Msg")
		if f == nil {
			continue
		}
		key := x + ".Msg:PoolPublicKey-optional"
		bad := false
		for _, a := range fieldAccesses(f) {
			if a.Kind != "load" || a.Field != "PoolPublicKey" {
				continue
			}
			v := a.In.(ssa.Value)
			if _, isPtr := v.Type().(*types.Pointer); !isPtr {
				continue
			}
			tests := nilTestsOf(f, v)
			used := false
			for al := range aliasesForward(f, v) {
				if refs := al.Referrers(); refs != nil {
					for _, u := range *refs {
						if cl, ok := u.(*ssa.Call); ok && callRecv(cl) == al {
							used = true
						}
					}
				}
			}
			if used && len(tests) == 0 {
				bad = true
				c.Bad(rule, key, c.Pos(a.In.Pos()), "the encoder calls a method on "+x+"'s PoolPublicKey without a nil test; a proof of a pool-contract plot has PoolPublicKey == nil (and a PuzzleHash instead, which has no wire field): such a message cannot be encoded / does not round-trip")
			}
		}
		if !bad {
			c.OK(rule, key, c.Pos(f.Pos()), "optional pointer is nil-tested before use")
		}
	}
}

// equivalentLoads: other loads in fn of the same memory location as load v (same field of the same
// base value, or same element of the same slice value with the same index value).
func equivalentLoads(fn *ssa.Function, v ssa.Value) []ssa.Value {
	ld, ok := v.(*ssa.UnOp)
	if !ok || ld.Op != token.MUL {
		return nil
	}
	same := func(a, b ssa.Value) bool {
		switch x := a.(type) {
		case *ssa.FieldAddr:
			y, ok := b.(*ssa.FieldAddr)
			return ok && x.Field == y.Field && sameValue(x.X, y.X)
		case *ssa.IndexAddr:
			y, ok := b.(*ssa.IndexAddr)
			return ok && sameValue(x.X, y.X) && sameValue(x.Index, y.Index)
		}
		return false
	}
	var out []ssa.Value
	allInstrs(fn, func(in ssa.Instruction) {
		l2, ok := in.(*ssa.UnOp)
		if !ok || l2.Op != token.MUL || l2 == ld {
			return
		}
		if same(ld.X, l2.X) {
			out = append(out, l2)
		}
	})
	return out
}

// sameValue: identical SSA value, or two loads of the same field of the same base (one hop).
func sameValue(a, b ssa.Value) bool {
	if a == b {
		return true
	}
	la, ok1 := a.(*ssa.UnOp)
	lb, ok2 := b.(*ssa.UnOp)
	if ok1 && ok2 && la.Op == token.MUL && lb.Op == token.MUL {
		fa, ok3 := la.X.(*ssa.FieldAddr)
		fb, ok4 := lb.X.(*ssa.FieldAddr)
		if ok3 && ok4 && fa.Field == fb.Field && fa.X == fb.X {
			return true
		}
	}
	return false
}

// codecOps: the text/byte codec operations applied on the way to a stored value.
func codecOps(s *slice, enc bool) map[string]bool {
	out := map[string]bool{}
	for v := range s.vals {
		cl, ok := v.(*ssa.Call)
		if !ok {
			continue
		}
		id := calleeID(cl)
		switch {
		case id == "encoding/hex.EncodeToString":
			out["hex.encode"] = true
		case id == "encoding/hex.DecodeString":
			out["hex.decode"] = true
		case id == "(github.com/google/uuid.UUID).String":
			out["uuid.string"] = true
		case id == "github.com/google/uuid.Parse":
			out["uuid.parse"] = true
		case strings.HasSuffix(id, "pocutil.Hash).String"):
			out["hash.string"] = true
		case strings.HasSuffix(id, "pocutil.DecodeStringToHash"):
			out["hash.decode"] = true
		case id == "(*math/big.Int).Bytes":
			out["big.bytes"] = true
		case id == "(*math/big.Int).SetBytes":
			out["big.setbytes"] = true
		case id == "(*math/big.Int).SetString", id == "(*math/big.Int).Text", id == "(*math/big.Int).String":
			out["big.text:"+callName(cl)] = true
		case strings.HasSuffix(id, "chiapos.NewG1ElementFromBytes"), strings.HasSuffix(id, "chiapos.NewG2ElementFromBytes"), strings.HasSuffix(id, "chiapos.NewPrivateKeyFromBytes"):
			out["group.frombytes"] = true
		case strings.HasSuffix(id, "Element).Bytes") && strings.Contains(id, "chiapos"):
			out["group.bytes"] = true
		case strings.HasPrefix(id, "strconv.") || strings.HasPrefix(id, "encoding/base64"):
			out[id] = true
		case strings.HasPrefix(id, pkgProto+".new") && !enc:
			// helper decoders: look inside
			if f := cl.Call.StaticCallee(); f != nil {
				allInstrs(f, func(in ssa.Instruction) {
					if c2, ok := in.(*ssa.Call); ok {
						for k := range codecOps(&slice{vals: map[ssa.Value]bool{c2: true}}, false) {
							out[k] = true
						}
					}
				})
			}
		}
	}
	return out
}

// codecMismatch returns "" when decoder ops are the inverses of the encoder ops.
func codecMismatch(e, d map[string]bool) string {
	inverse := map[string][]string{
		"hex.encode":  {"hex.decode", "hash.decode"},
		"uuid.string": {"uuid.parse"},
		"hash.string": {"hash.decode"},
		"big.bytes":   {"big.setbytes"},
		"group.bytes": {"group.frombytes"},
	}
	used := map[string]bool{}
	for op := range e {
		inv, known := inverse[op]
		if !known {
			return "encoder operation " + op + " has no registered inverse"
		}
		ok := false
		for _, i := range inv {
			if d[i] {
				ok = true
				used[i] = true
			}
		}
		if !ok {
			return "the decoder does not apply the inverse of " + op + " (one of " + fmt.Sprint(inv) + "): some encoded values (e.g. the empty string for zero) are rejected or decoded differently"
		}
	}
	for op := range d {
		if !used[op] {
			return "decoder operation " + op + " has no counterpart in the encoder"
		}
	}
	return ""
}

// sameModuloLosslessConv: a and b are the same SSA value up to conversions that cannot lose bits.
func sameModuloLosslessConv(a, b ssa.Value) bool {
	peel := func(v ssa.Value) ssa.Value {
		for {
			cv, ok := v.(*ssa.Convert)
			if !ok {
				return v
			}
			if lossyConversion(cv) != "" {
				return v
			}
			v = cv.X
		}
	}
	return peel(a) == peel(b)
}

// checkSingleWriter: frames are not interleaved on the wire: only the send routine writes to the
// connection's socket. Every function of the connection package from which a raw Write on the net.Conn
// is reachable is (transitively) called from sendRoutine alone; a keepalive or control frame written
// directly by another goroutine can land between the size prefix and the body of a frame and
// desynchronise the stream.
func checkSingleWriter(c *Ctx, rule string) {
	const pkgConn = repoMod + "/fractal/connection"
	key := "connection:socket-written-by-sendRoutine-only"
	send := c.MustFn(rule, "fractal/connection", "(*Conn).sendRoutine")
	if send == nil {
		return
	}
	isRawWrite := func(in ssa.Instruction) bool {
		ci, ok := in.(ssa.CallInstruction)
		if !ok || !ci.Common().IsInvoke() || ci.Common().Method.Name() != "Write" {
			return false
		}
		return strings.HasSuffix(ci.Common().Value.Type().String(), "net.Conn")
	}
	writers := map[*ssa.Function]bool{}
	for fn := range c.AllFuncs {
		if pkgOf(fn) != pkgConn {
			continue
		}
		fn := fn
		allInstrsShallow(fn, func(in ssa.Instruction) {
			if isRawWrite(in) {
				writers[outermost(fn)] = true
			}
		})
	}
	if len(writers) == 0 {
		c.Bad(rule, key, c.Pos(send.Pos()), "reason=anchor-missing: no Write on the net.Conn in the connection package")
		return
	}
	// R: functions that reach a writer through static calls inside the package
	reach := map[*ssa.Function]bool{}
	for w := range writers {
		reach[w] = true
	}
	callers := map[*ssa.Function][]*ssa.Function{}
	for fn := range c.AllFuncs {
		if pkgOf(fn) != pkgConn {
			continue
		}
		fn := fn
		allInstrsShallow(fn, func(in ssa.Instruction) {
			if ci, ok := in.(ssa.CallInstruction); ok {
				if h := ci.Common().StaticCallee(); h != nil && pkgOf(h) == pkgConn {
					callers[outermost(h)] = append(callers[outermost(h)], outermost(fn))
				}
			}
		})
	}
	for changed := true; changed; {
		changed = false
		for h, cs := range callers {
			if !reach[h] || h == send {
				continue // who starts the send routine is not a writer
			}
			for _, g := range cs {
				if !reach[g] {
					reach[g] = true
					changed = true
				}
			}
		}
	}
	var bad []string
	for fn := range reach {
		if fn == send {
			continue
		}
		// every caller chain must end in sendRoutine: a function in R that is started as a goroutine, is
		// exported, or has a caller outside R∪… is another writer
		isRoot := len(callers[fn]) == 0 || isExportedFn(fn)
		onlyFromSend := true
		seen := map[*ssa.Function]bool{}
		var up func(f *ssa.Function) bool
		up = func(f *ssa.Function) bool {
			if f == send {
				return true
			}
			if seen[f] {
				return true
			}
			seen[f] = true
			if len(callers[f]) == 0 {
				return false
			}
			for _, g := range callers[f] {
				if !up(g) {
					return false
				}
			}
			return true
		}
		onlyFromSend = up(fn)
		if isRoot || !onlyFromSend {
			bad = append(bad, FuncName(fn))
		}
	}
	sort.Strings(bad)
	if len(bad) > 0 {
		c.Bad(rule, key, c.Pos(send.Pos()), "the socket can be written outside the send routine (via "+strings.Join(bad, ", ")+"): two goroutines writing frames concurrently interleave a prefix or keepalive with another frame's body, the peer reads a shifted frame (\"unknown msg type\") and the stream is lost")
	} else {
		c.OK(rule, key, c.Pos(send.Pos()), fmt.Sprintf("%d function(s) reach the raw Write, all only through sendRoutine", len(reach)))
	}
}

// checkRoutineOwnedState: the goroutines of one connection do not share scratch state: no field of Conn
// is written by code running in two different goroutines of the connection (send, receive, keepalive,
// aliveness monitor) — a size-prefix buffer shared between the send and the receive routine lets an
// outgoing frame go out under the incoming frame's length.
func checkRoutineOwnedState(c *Ctx, rule string) {
	const pkgConn = repoMod + "/fractal/connection"
	key := "connection:no-field-written-by-two-routines"
	roots := map[*ssa.Function]bool{}
	for fn := range c.AllFuncs {
		if pkgOf(fn) != pkgConn {
			continue
		}
		allInstrsShallow(fn, func(in ssa.Instruction) {
			if g, ok := in.(*ssa.Go); ok {
				if h := g.Call.StaticCallee(); h != nil && pkgOf(h) == pkgConn {
					roots[h] = true
				}
			}
		})
	}
	if len(roots) < 2 {
		c.Bad(rule, key, "", "reason=anchor-missing: the connection's goroutines (go statements in the connection package)")
		return
	}
	writers := map[string]map[string]bool{} // field -> root names
	for root := range roots {
		seen := map[*ssa.Function]bool{}
		var walk func(f *ssa.Function)
		walk = func(f *ssa.Function) {
			if seen[f] {
				return
			}
			seen[f] = true
			for _, g := range withClosures(f) {
				for _, a := range fieldAccessesShallow(g) {
					if a.Write && strings.HasSuffix(a.Type, "connection.Conn") && !isFreshObject(a.Base) {
						if writers[a.Field] == nil {
							writers[a.Field] = map[string]bool{}
						}
						writers[a.Field][root.Name()] = true
					}
				}
				allInstrs(g, func(in ssa.Instruction) {
					if _, isGo := in.(*ssa.Go); isGo {
						return
					}
					if h := staticCallee(in); h != nil && pkgOf(h) == pkgConn && !roots[h] {
						walk(h)
					}
				})
			}
		}
		walk(root)
	}
	var bad []string
	for f, rs := range writers {
		if len(rs) > 1 {
			var names []string
			for r := range rs {
				names = append(names, r)
			}
			sort.Strings(names)
			bad = append(bad, "Conn."+f+" (written by "+strings.Join(names, " and ")+")")
		}
	}
	sort.Strings(bad)
	if len(bad) > 0 {
		c.Bad(rule, key, "", strings.Join(bad, "; ")+": two goroutines of one connection write the same field without synchronisation — with the size-prefix buffer shared, a frame is sent under the length of the frame being received and the stream is cut at the wrong place")
	} else {
		c.OK(rule, key, "", fmt.Sprintf("%d goroutines per connection, no Conn field written by more than one of them", len(roots)))
	}
}

// checkDecodedPointersNonNil (C16-DECNIL): in every SetMsg of package protocol, a value stored into a
// pointer-typed field of the receiver is never the nil constant (directly or as one edge of a phi / one reaching
// store of a local). The receivers of a message use these fields without nil tests (Copy(), big.Int arithmetic).
func checkDecodedPointersNonNil(c *Ctx, rule string) {
	var fns []*ssa.Function
	for fn := range c.AllFuncs {
		if fn != nil && fn.Blocks != nil && pkgOf(fn) == pkgProto && fn.Signature.Recv() != nil && fn.Name() == "SetMsg" {
			fns = append(fns, fn)
		}
	}
	sort.Slice(fns, func(i, j int) bool { return FuncName(fns[i]) < FuncName(fns[j]) })
	n := 0
	for _, fn := range fns {
		for _, a := range fieldAccessesShallow(fn) {
			if a.Kind != "store" {
				continue
			}
			st, ok := a.In.(*ssa.Store)
			if !ok {
				continue
			}
			if _, isPtr := st.Val.Type().Underlying().(*types.Pointer); !isPtr {
				continue
			}
			// only fields of the message being filled (the receiver)
			if len(fn.Params) == 0 || !backSlice(a.Base).has(fn.Params[0]) {
				continue
			}
			n++
			key := FuncName(fn) + ":" + a.Field
			mayNil := false
			valueOrigins(fn, st.Val, func(root ssa.Value) {
				if k, isK := root.(*ssa.Const); isK && k.IsNil() {
					mayNil = true
				}
			})
			if mayNil {
				c.Bad(rule, key, c.Pos(st.Pos()), "SetMsg can leave the pointer field "+a.Field+" nil and still succeed (an empty or absent wire field decodes to nil): the receivers of the message dereference it")
			} else {
				c.OK(rule, key, c.Pos(st.Pos()), "the stored pointer is never the nil constant")
			}
		}
	}
	if n == 0 {
		c.Bad(rule, "anchor", "", "reason=anchor-missing: no pointer field stored by a SetMsg of package protocol")
	}
}
