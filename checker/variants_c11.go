package main

const fCapacity = "poc/engine/spacekeeper/capacity/capacity.go"
const fCapStrategy = "poc/engine/spacekeeper/capacity/strategy.go"

func init() {
	variants["C11"] = []variant{
		{Name: "ordinal-vs-wallet comparison dropped on load", Kill: true, Rule: "C11-LOAD", File: fCapStrategy,
			Old: "if !exists || dbIndex != int(ordinal) {", New: "if !exists {"},
		{Name: "duplicate plot file indexed anyway", Kill: true, Rule: "C11-LOAD", File: fCapStrategy,
			Old: "logging.LogFormat{\"filepath\": filePath, \"err\": ErrMassDBDuplicate})\n\t\t\t\tcontinue\n", New: "logging.LogFormat{\"filepath\": filePath, \"err\": ErrMassDBDuplicate})\n"},
		{Name: "file indexed although NewWorkSpace failed is skipped only for one error", Kill: true, Rule: "C11-LOAD", File: fCapStrategy,
			Old: "\t\t\tws, err := NewWorkSpace(dbType, dbDir, int64(ordinal), pubKey, bitLength)\n\t\t\tif err != nil {", New: "\t\t\tws, err := NewWorkSpace(dbType, dbDir, int64(ordinal), pubKey, bitLength)\n\t\t\tif err == ErrMassDBDoesNotMatchWithName {"},
		{Name: "RemoveWS also deletes the plot files", Kill: true, Rule: "C11-REACH", File: fCapacity,
			Old: "\tsk.disuseWorkSpace(ws)\n\treturn nil\n}", New: "\tsk.disuseWorkSpace(ws)\n\treturn ws.Delete()\n}"},
		{Name: "DeleteWS falls through for plotting/mining spaces", Kill: true, Rule: "C11-GATE", File: fCapacity,
			Old: "\t\tif ws, ok = sk.workSpaceIndex[engine.Ready].Get(sid); !ok {\n\t\t\treturn ErrWorkSpaceIsNotStill\n\t\t}\n\t}\n\n\tsk.workSpaceIndex[ws.state].Delete(sid)",
			New: "\t\tif ws, ok = sk.workSpaceIndex[engine.Ready].Get(sid); !ok {\n\t\t\tws, _ = sk.workSpaceIndex[allState].Get(sid)\n\t\t}\n\t}\n\n\tsk.workSpaceIndex[ws.state].Delete(sid)"},
		{Name: "disuseWorkSpace removes a file", Kill: true, Rule: "C11-WMC", File: fCapacity,
			Old: "\tws.using = false\n\tsk.workSpaceList = deleteFromSlice(", New: "\tws.using = false\n\tos.Remove(filepath.Join(ws.rootDir, ws.id.String()))\n\tsk.workSpaceList = deleteFromSlice("},
		{Name: "plot completion removes map B instead of map A", Kill: true, Rule: "C11-WMC", File: fPlot,
			Old: "\tos.Remove(mdb.filePathA)\n\tmdb.HashMapA = nil", New: "\tos.Remove(mdb.filePathB)\n\tmdb.HashMapA = nil"},
		{Name: "MassDBV1.Delete proceeds while plotting", Kill: true, Rule: "C11-GATE", File: fMassDBV1,
			Old: "\t\tsendResult(ErrAlreadyPlotting)\n\t\treturn result\n", New: "\t\tsendResult(ErrAlreadyPlotting)\n"},
		{Name: "header check compares the name with itself again", Kill: true, Rule: "C11-HEADER", File: fMassDBV1,
			Old: "if !pubKey.IsEqual(hmB.pk) || hmB.bl != bitLength {", New: "if !pubKey.IsEqual(pubKey) || hmB.bl != bitLength {"},
		{Name: "header bit length no longer compared for map B", Kill: true, Rule: "C11-HEADER", File: fMassDBV1,
			Old: "if !pubKey.IsEqual(hmB.pk) || hmB.bl != bitLength {", New: "if !pubKey.IsEqual(hmB.pk) {"},
		{Name: "loadHashMap accepts any version", Kill: true, Rule: "C11-HEADER", File: fHashMap,
			Old: "\t\treturn failureReturn(ErrDBWrongVersion)\n", New: ""},
		{Name: "loadHashMap accepts a key that does not match its stored hash", Kill: true, Rule: "C11-HEADER", File: fHashMap,
			Old: "if hm.pkHash != pocutil.PubKeyHash(hm.pk) {", New: "if hm.pkHash != hm.pkHash {"},
		{Name: "keystore export truncates an arbitrary caller-chosen file name", Kill: true, Rule: "C11-WMC", File: "api/wallets.go",
			Old: "exportFileName := fmt.Sprintf(\"%s/%s-%s.json\", in.ExportPath, keystoreFileNamePrefix, in.WalletId)", New: "exportFileName := fmt.Sprintf(\"%s/%s\", in.ExportPath, in.WalletId)"},

		{Name: "ownership and ordinal tests split into two ifs", Kill: false, File: fCapStrategy,
			Old: "\t\t\tif !exists || dbIndex != int(ordinal) {\n", New: "\t\t\tif !exists {\n\t\t\t\tcontinue\n\t\t\t}\n\t\t\tif dbIndex != int(ordinal) {\n"},
		{Name: "header key compared through serialised bytes", Kill: false, File: fMassDBV1,
			Old: "if !pubKey.IsEqual(hmB.pk) || hmB.bl != bitLength {", New: "if string(pubKey.SerializeCompressed()) != string(hmB.pk.SerializeCompressed()) || hmB.bl != bitLength {"},
		{Name: "state gate of RemoveWS written as a switch-like chain", Kill: false, File: fCapacity,
			Old: "\tif ws, ok = sk.workSpaceIndex[engine.Registered].Get(sid); !ok {\n\t\tif ws, ok = sk.workSpaceIndex[engine.Ready].Get(sid); !ok {\n\t\t\treturn ErrWorkSpaceIsNotStill\n\t\t}\n\t}\n\n\tsk.disuseWorkSpace(ws)\n\treturn nil",
			New: "\tws, ok = sk.workSpaceIndex[engine.Registered].Get(sid)\n\tif !ok {\n\t\tws, ok = sk.workSpaceIndex[engine.Ready].Get(sid)\n\t}\n\tif !ok {\n\t\treturn ErrWorkSpaceIsNotStill\n\t}\n\n\tsk.disuseWorkSpace(ws)\n\treturn nil"},
		{Name: "logging added before indexing", Kill: false, File: fCapStrategy,
			Old: "\t\t\tsk.addWorkSpaceToIndex(ws)\n\t\t\tdirSearched += 1", New: "\t\t\tlogging.CPrint(logging.DEBUG, \"indexing\", logging.LogFormat{\"sid\": sid})\n\t\t\tsk.addWorkSpaceToIndex(ws)\n\t\t\tdirSearched += 1"},
	}
}
