package main

// C12 — wallet operations are atomic under crashes and storage errors.

import (
	"fmt"
	"go/types"
	"sort"
	"strings"

	"golang.org/x/tools/go/ssa"
)

const (
	pkgKeystore = repoMod + "/poc/wallet/keystore"
	pkgDB       = repoMod + "/poc/wallet/db"
	pkgLDB      = repoMod + "/poc/wallet/db/ldb"
	idUpdate    = pkgDB + ".Update"
	idView      = pkgDB + ".View"
	tAddrMgr    = pkgKeystore + ".AddrManager"
	tKMC        = pkgKeystore + ".KeystoreManagerForPoC"
	tBranchInfo = pkgKeystore + ".branchInfo"
	tAcctInfo   = pkgKeystore + ".accountInfo"
)

var bucketWriteMethods = map[string]bool{
	"(" + pkgDB + ".Bucket).Put": true, "(" + pkgDB + ".Bucket).Delete": true, "(" + pkgDB + ".Bucket).Clear": true,
	"(" + pkgDB + ".Bucket).NewBucket": true, "(" + pkgDB + ".Bucket).DeleteBucket": true,
	"(" + pkgDB + ".DBTransaction).CreateTopLevelBucket": true, "(" + pkgDB + ".DBTransaction).DeleteTopLevelBucket": true,
}

// durableImage: in-memory fields that mirror durable keys (the C02 pairing table).
var durableImage = map[string]bool{
	tAddrMgr + ".remark": true, tAddrMgr + ".addrs": true, tAddrMgr + ".cryptoKeyPrivEncrypted": true,
	tAddrMgr + ".masterKeyPriv": true, tAddrMgr + ".masterKeyPub": true, tAddrMgr + ".cryptoKeyPub": true,
	tAddrMgr + ".keystoreName": true, tAddrMgr + ".storage": true,
	tBranchInfo + ".nextExternalIndex": true, tBranchInfo + ".nextInternalIndex": true,
	tKMC + ".managedKeystores": true, tKMC + ".pubPassphrase": true,
}

func isBucketWrite(in ssa.Instruction) bool {
	return bucketWriteMethods[calleeID(in)]
}

// updateSites lists db.Update call sites of fn with their closure argument.
type txSite struct {
	Call    *ssa.Call
	Closure *ssa.Function
	In      *ssa.Function
	Write   bool // Update (true) or View
}

func txSites(fn *ssa.Function) []txSite {
	var out []txSite
	allInstrs(fn, func(in ssa.Instruction) {
		call, ok := in.(*ssa.Call)
		if !ok {
			return
		}
		id := calleeID(call)
		if id != idUpdate && id != idView {
			return
		}
		var cl *ssa.Function
		if len(call.Call.Args) == 2 {
			switch a := call.Call.Args[1].(type) {
			case *ssa.MakeClosure:
				cl = a.Fn.(*ssa.Function)
				if m := boundMethodTarget(a); m != nil {
					cl = m // `op.run` passed as the transaction body: the method is the body
				}
			case *ssa.Function:
				cl = a
			}
		}
		out = append(out, txSite{Call: call, Closure: cl, In: fn, Write: id == idUpdate})
	})
	return out
}

// isTxClosureEdge: the edge from a function to a closure it passes to db.Update/db.View.
func isTxClosureEdge(e callEdge) bool {
	return e.Kind == "closure-arg" && (e.ArgOf == idUpdate || e.ArgOf == idView)
}
func isUpdateClosureEdge(e callEdge) bool {
	return e.Kind == "closure-arg" && e.ArgOf == idUpdate
}

func inCycle(in ssa.Instruction) bool {
	fn := in.Parent()
	r := reach(fn, in, nil, nil)
	// reachable from itself: the instruction before it in the same block reached again
	p := instrIndex(in)
	// reach() starts after `in`; if block is re-entered from its start, `in` is reported reachable
	_ = p
	return r(in) && blockReentered(fn, in)
}

func blockReentered(fn *ssa.Function, in ssa.Instruction) bool {
	if in.Parent() != fn && len(gNewFuncs) > 0 {
		// inside a helper the reference tree does not have: in a loop of the helper, or the helper's call
		// sits in a loop of the function that calls it (and so on outwards to fn)
		chain := projectChain(in)
		for i, lv := range chain {
			if lv.Parent() == fn || i == len(chain)-1 {
				in = lv
				break
			}
			if blockReentered(lv.Parent(), lv) {
				return true
			}
		}
	}
	b := in.Block()
	seen := map[*ssa.BasicBlock]bool{}
	work := append([]*ssa.BasicBlock{}, b.Succs...)
	for len(work) > 0 {
		x := work[len(work)-1]
		work = work[:len(work)-1]
		if x == b {
			return true
		}
		if seen[x] {
			continue
		}
		seen[x] = true
		work = append(work, x.Succs...)
	}
	return false
}

func exportedFuncs(c *Ctx, pkgPath string) []*ssa.Function {
	p := c.SSA[pkgPath]
	if p == nil {
		return nil
	}
	var out []*ssa.Function
	names := []string{}
	for n := range p.Members {
		names = append(names, n)
	}
	sort.Strings(names)
	for _, n := range names {
		switch m := p.Members[n].(type) {
		case *ssa.Function:
			if m.Object() != nil && m.Object().Exported() && m.Blocks != nil {
				out = append(out, m)
			}
		case *ssa.Type:
			for _, T := range []types.Type{m.Type(), types.NewPointer(m.Type())} {
				ms := c.Prog.MethodSets.MethodSet(T)
				for i := 0; i < ms.Len(); i++ {
					sel := ms.At(i)
					if !sel.Obj().Exported() {
						continue
					}
					f := c.Prog.MethodValue(sel)
					if f == nil || f.Blocks == nil || f.Synthetic != "" {
						continue
					}
					dup := false
					for _, o := range out {
						if o == f {
							dup = true
						}
					}
					if !dup {
						out = append(out, f)
					}
				}
			}
		}
	}
	return out
}

// durableStoresIn lists durable-image writes of fn, skipping objects under construction.
func durableStoresIn(fn *ssa.Function) []fieldAccess {
	var out []fieldAccess
	for _, a := range fieldAccesses(fn) {
		if !a.Write || !durableImage[a.Type+"."+a.Field] {
			continue
		}
		if isFreshObject(a.Base) {
			continue
		}
		out = append(out, a)
	}
	return out
}

func init() { register("C12", checkC12) }

func checkC12(c *Ctx) Meta {
	// the store's own transaction layer (C19) as a premise, when C12 is the property being decided: a
	// Commit that can report success without committing makes every acknowledged operation provisional
	if c.Prop == "C12" {
		c.pushAlias("C19-", "C12-LDB-")
		checkC19(c)
		c.popAlias()
	}
	c.Rule("C12-A", "one transaction: every exported wallet operation reaches at most one db.Update call site, and that site is not inside a loop", 9)
	c.Rule("C12-B", "writes only inside the transaction: with the edge db.Update->closure removed, no function containing a bucket write is reachable from an exported function of keystore/wallet", 15)
	c.Rule("C12-C", "memory after commit: no store to a durable-image field inside an Update closure or its callees; in the operation every such store (or call leading to one) lies behind the success edge of the Update result test", 8)
	c.Rule("C12-D", "errors reach the closure's return: every error from a bucket write or keystore helper inside an Update closure (and callees) is tested and, on the non-nil branch, a provably non-nil error is returned without rejoining normal flow", 60)
	c.Rule("C12-F", "outside the closures as well, every error returned by a transaction (db.Update/db.View) or by a keystore/db helper to a function of the keystore or wallet package is looked at on every path and, on its non-nil branch, fails the operation with a non-nil error (no log-and-continue after a failed step of an operation)", 50)
	c.Rule("C12-G", "the transaction runners report every failure: db.Update/db.View return the error of beginning the transaction, of the body and of the commit on every path (a failed commit is never rolled back and reported as success), and db.Update reports success only after tx.Commit", 5)
	checkTxRunner(c, "C12-G")
	c.Rule("C12-E", "transaction wrapper: in db.Update a closure error leads to Rollback and is returned; otherwise the result of Commit is returned", 3)

	ksExports := exportedFuncs(c, pkgKeystore)
	walletExports := exportedFuncs(c, repoMod+"/poc/wallet")
	roots := append(append([]*ssa.Function{}, ksExports...), walletExports...)
	if len(ksExports) < 40 {
		c.Bad("C12-A", "anchor:keystore-exports", "", fmt.Sprintf("reason=anchor-missing: only %d exported keystore functions found", len(ksExports)))
	}

	// ---- A: one transaction per operation
	followNoTx := func(from *ssa.Function, e callEdge) bool {
		return !isTxClosureEdge(e) && strings.HasPrefix(pkgOf(e.Callee), repoMod+"/poc/wallet")
	}
	for _, op := range ksExports {
		seen := c.Reachable([]*ssa.Function{op}, followNoTx)
		var sites []txSite
		for f := range seen {
			for _, s := range txSites(f) {
				if s.Write {
					sites = append(sites, s)
				}
			}
		}
		if len(sites) == 0 {
			continue
		}
		key := FuncName(op)
		if len(sites) > 1 {
			var where []string
			for _, s := range sites {
				where = append(where, c.Pos(s.Call.Pos()))
			}
			sort.Strings(where)
			c.Bad("C12-A", key, where[0], fmt.Sprintf("operation performs %d separate db.Update transactions (%s): a crash between them leaves a partial effect", len(sites), strings.Join(where, ", ")))
			continue
		}
		s := sites[0]
		if blockReentered(s.In, s.Call) {
			c.Bad("C12-A", key, c.Pos(s.Call.Pos()), "the db.Update call is inside a loop: one operation commits several transactions")
			continue
		}
		if s.Closure == nil {
			c.Unk("C12-A", key, c.Pos(s.Call.Pos()), "db.Update argument is not a function literal; closure cannot be identified")
			continue
		}
		c.OK("C12-A", key, c.Pos(s.Call.Pos()), "exactly one db.Update site, not in a loop")
	}

	// ---- B: writes only inside Update closures
	seenB := c.Reachable(roots, func(from *ssa.Function, e callEdge) bool {
		if isUpdateClosureEdge(e) {
			return false
		}
		return strings.HasPrefix(pkgOf(e.Callee), repoMod+"/poc/wallet")
	})
	writers := []*ssa.Function{}
	for fn := range c.AllFuncs {
		if !strings.HasPrefix(pkgOf(fn), pkgKeystore) && pkgOf(fn) != repoMod+"/poc/wallet" && pkgOf(fn) != pkgDB {
			continue
		}
		has := false
		allInstrsShallow(fn, func(in ssa.Instruction) {
			if isBucketWrite(in) {
				has = true
			}
		})
		if has {
			writers = append(writers, fn)
		}
	}
	sort.Slice(writers, func(i, j int) bool { return FuncName(writers[i]) < FuncName(writers[j]) })
	for _, w := range writers {
		key := FuncName(w)
		if pkgOf(w) == pkgDB {
			// db.GetOrCreateBucket / GetOrCreateTopLevelBucket: exported helpers taking a bucket/tx
			// argument; their callers are what matters.
			if v := seenB[w]; v != nil && v.From != nil {
				c.Bad("C12-B", key, c.Pos(w.Pos()), "bucket-creating helper reachable outside db.Update: "+pathTo(seenB, w))
			} else {
				c.OK("C12-B", key, c.Pos(w.Pos()), "only reachable through db.Update closures")
			}
			continue
		}
		if v := seenB[w]; v != nil {
			c.Bad("C12-B", key, c.Pos(w.Pos()), "function performing a bucket write is reachable without passing through a db.Update closure: "+pathTo(seenB, w))
		} else {
			c.OK("C12-B", key, c.Pos(w.Pos()), "only reachable through db.Update closures")
		}
	}

	// ---- C: memory after commit
	// C1: inside Update closures and callees
	var updClosures []*ssa.Function
	var allSites []txSite
	for fn := range c.AllFuncs {
		if !strings.HasPrefix(pkgOf(fn), pkgKeystore) {
			continue
		}
		for _, s := range txSites(fn) {
			if s.Write && s.Closure != nil {
				updClosures = append(updClosures, s.Closure)
				allSites = append(allSites, s)
			}
		}
	}
	sort.Slice(updClosures, func(i, j int) bool { return FuncName(updClosures[i]) < FuncName(updClosures[j]) })
	inTx := c.Reachable(updClosures, func(from *ssa.Function, e callEdge) bool {
		return strings.HasPrefix(pkgOf(e.Callee), pkgKeystore)
	})
	inTxFns := []*ssa.Function{}
	for f := range inTx {
		inTxFns = append(inTxFns, f)
	}
	sort.Slice(inTxFns, func(i, j int) bool { return FuncName(inTxFns[i]) < FuncName(inTxFns[j]) })
	for _, f := range inTxFns {
		for _, a := range durableStoresIn(f) {
			c.Bad("C12-C", "in-tx:"+FuncName(f)+":"+shortType(a.Type)+"."+a.Field, c.Pos(a.In.Pos()),
				"durable-image field "+shortType(a.Type)+"."+a.Field+" is written inside the Update transaction ("+pathTo(inTx, f)+"): if the commit fails the running instance shows the new value")
		}
	}
	for _, cl := range updClosures {
		c.OK("C12-C", "in-tx-scan:"+FuncName(cl), c.Pos(cl.Pos()), fmt.Sprintf("closure and its keystore callees scanned for durable-image stores"))
	}
	// C2: in the operation, stores must be behind the success edge of the Update test
	memWriters := map[*ssa.Function]bool{} // functions that (transitively, outside tx closures) write durable image
	changed := true
	for fn := range c.AllFuncs {
		if strings.HasPrefix(pkgOf(fn), pkgKeystore) && len(durableStoresIn(fn)) > 0 {
			memWriters[fn] = true
		}
	}
	for changed {
		changed = false
		for fn := range c.AllFuncs {
			if memWriters[fn] || !strings.HasPrefix(pkgOf(fn), pkgKeystore) {
				continue
			}
			for _, e := range c.Callees(fn) {
				if isUpdateClosureEdge(e) {
					continue
				}
				if memWriters[e.Callee] {
					memWriters[fn] = true
					changed = true
					break
				}
			}
		}
	}
	for _, s := range allSites {
		fn := s.In
		key := "after-commit:" + FuncName(fn)
		errs := errResults(s.Call)
		if len(errs) == 0 {
			c.Bad("C12-C", key, c.Pos(s.Call.Pos()), "the result of db.Update is discarded: memory is refreshed without knowing whether the commit succeeded")
			continue
		}
		tests := nilTestsOf(fn, errs[0])
		al := aliasesForward(fn, errs[0])
		direct := flowsToReturn(fn, al)
		if len(tests) == 0 && !direct {
			c.Bad("C12-C", key, c.Pos(s.Call.Pos()), "the result of db.Update is never tested")
			continue
		}
		// cut the success edges; anything still reachable after the Update call runs also on failure
		cut := func(from, to *ssa.BasicBlock) bool {
			for _, t := range tests {
				if from == t.If.Block() && to == t.NilSucc && t.NilSucc != t.NonNil {
					return true
				}
			}
			return false
		}
		onFail := reach(fn, s.Call, cut, nil)
		beforeOrFail := func(in ssa.Instruction) (bool, string) {
			if onFail(in) {
				return true, "is reachable on the path where db.Update returned an error"
			}
			// before the Update call at all (not dominated by it)
			if !instrDominates(s.Call, in) {
				return true, "may execute before db.Update has returned"
			}
			return false, ""
		}
		bad := false
		for _, a := range durableStoresIn(fn) {
			if b, why := beforeOrFail(a.In); b {
				bad = true
				c.Bad("C12-C", key+":"+shortType(a.Type)+"."+a.Field, c.Pos(a.In.Pos()), "store to durable-image field "+shortType(a.Type)+"."+a.Field+" "+why)
			}
		}
		allInstrs(fn, func(in ssa.Instruction) {
			ci, ok := in.(ssa.CallInstruction)
			if !ok || in == ssa.Instruction(s.Call) {
				return
			}
			f := ci.Common().StaticCallee()
			if f == nil || !memWriters[f] {
				return
			}
			if b, why := beforeOrFail(in); b {
				bad = true
				c.Bad("C12-C", key+":call:"+f.Name(), c.Pos(in.Pos()), "call of "+FuncName(f)+", which writes durable-image memory, "+why)
			}
		})
		if !bad {
			c.OK("C12-C", key, c.Pos(s.Call.Pos()), "every durable-image store of the operation is dominated by db.Update and unreachable on its failure edge")
		}
	}

	// ---- D: errors inside the closure reach its return
	runErrflow(c, errflowCfg{
		rule:  "C12-D",
		scope: inTxFns,
		classK: func(fn *ssa.Function, call *ssa.Call) bool {
			id := calleeID(call)
			if bucketWriteMethods[id] {
				return true
			}
			if f := call.Call.StaticCallee(); f != nil {
				p := pkgOf(f)
				return p == pkgKeystore || p == pkgDB
			}
			return false
		},
		strict: func(fn *ssa.Function, call *ssa.Call) bool { return true },
	})

	// ---- F: outside the closures too: every error of a wallet step (transaction, helper, manager
	// method) in the keystore and wallet packages is looked at on every path and fails the operation
	{
		var scopeF []*ssa.Function
		inTx := map[*ssa.Function]bool{}
		for _, f := range inTxFns {
			inTx[f] = true
		}
		for fn := range c.AllFuncs {
			p := pkgOf(fn)
			if (p == pkgKeystore || p == repoMod+"/poc/wallet") && len(fn.Blocks) > 0 && !inTx[fn] {
				scopeF = append(scopeF, fn)
			}
		}
		sort.Slice(scopeF, func(i, j int) bool { return FuncName(scopeF[i]) < FuncName(scopeF[j]) })
		errflowAllowNoErrorResult = true
		defer func() { errflowAllowNoErrorResult = false }()
		runErrflow(c, errflowCfg{
			except: map[string]string{
				"(*poc/wallet/keystore.KeystoreManagerForPoC).ChangePubPassphrase:(*poc/wallet/keystore.AddrManager).safelyCheckPassword#1": "inverted check: the new public passphrase must NOT be accepted as the private one, so a nil result is the failure and is turned into ErrIllegalNewPubPass",
				"(*poc/wallet/keystore.KeystoreManagerForPoC).ChangePubPassphrase:(*poc/wallet/keystore.AddrManager).checkPassword#1":       "the same inverted check with safelyCheckPassword inlined (checkPassword, then wipe the derived key on the accepting branch)",
			},
			rule:  "C12-F",
			scope: scopeF,
			classK: func(fn *ssa.Function, call *ssa.Call) bool {
				id := calleeID(call)
				if id == idUpdate || id == idView {
					return true
				}
				if f := call.Call.StaticCallee(); f != nil {
					p := pkgOf(f)
					return p == pkgKeystore || p == pkgDB
				}
				return false
			},
			strict: func(fn *ssa.Function, call *ssa.Call) bool { return true },
		})
	}

	// ---- E: the wrapper
	checkUpdateWrapper(c, "C12-E")

	return Meta{
		Explanation: "Static necessary conditions for wallet atomicity, decided on the SSA form of /repo's working tree: (A) one db.Update per operation, (B) bucket writes unreachable outside Update closures, (C) durable-image memory written only behind the commit's success edge and never inside the closure, (D) every storage/helper error inside the closure reaches the closure's return as a provably non-nil error, (E) db.Update rolls back on error and returns Commit's result. These hold for every input, history and fault point because they are properties of all CFG paths; they do not execute any code.",
		NotDecided:  "leveldb's own transaction atomicity and crash behaviour (trusted); partial refresh of memory when a post-commit read (db.View, rand.Read) fails.",
		Trusted:     []string{"go/types, go/ssa (x/tools v0.29.0)", "goleveldb transaction atomicity", "frozen tables: bucket write method set, durable-image field set"},
		Assumptions: []string{"package-level Err* variables are non-nil", "errors.New/fmt.Errorf return non-nil"},
	}
}

func shortType(t string) string {
	if i := strings.LastIndex(t, "/"); i >= 0 {
		return t[i+1:]
	}
	return t
}

// checkUpdateWrapper verifies the shape of db.Update.
func checkUpdateWrapper(c *Ctx, rule string) {
	fn := c.MustFn(rule, "poc/wallet/db", "Update")
	if fn == nil {
		return
	}
	var closureCall, commit, rollback, begin *ssa.Call
	allInstrs(fn, func(in ssa.Instruction) {
		call, ok := in.(*ssa.Call)
		if !ok {
			return
		}
		switch {
		case calleeID(call) == "("+pkgDB+".DBTransaction).Commit":
			commit = call
		case calleeID(call) == "("+pkgDB+".DBTransaction).Rollback":
			rollback = call
		case calleeID(call) == "("+pkgDB+".DB).BeginTx":
			begin = call
		default:
			if _, isParam := call.Call.Value.(*ssa.Parameter); isParam {
				closureCall = call
			}
		}
	})
	if closureCall == nil || commit == nil || rollback == nil || begin == nil {
		c.Bad(rule, "db.Update:shape", c.Pos(fn.Pos()), "db.Update no longer contains BeginTx, the closure call, Rollback and Commit")
		return
	}
	e := errResults(closureCall)
	if len(e) != 1 {
		c.Bad(rule, "db.Update:closure-error", c.Pos(closureCall.Pos()), "closure error is discarded")
		return
	}
	tests := nilTestsOf(fn, e[0])
	if len(tests) == 0 {
		c.Bad(rule, "db.Update:closure-error", c.Pos(closureCall.Pos()), "closure error is never tested")
		return
	}
	al := aliasesForward(fn, e[0])
	cutNil := func(from, to *ssa.BasicBlock) bool {
		for _, t := range tests {
			if from == t.If.Block() && to == t.NilSucc {
				return true
			}
		}
		return false
	}
	cutNonNil := func(from, to *ssa.BasicBlock) bool {
		for _, t := range tests {
			if from == t.If.Block() && to == t.NonNil {
				return true
			}
		}
		return false
	}
	// on the error path (nil edge cut): Commit unreachable, Rollback on every path to return, returns e
	errPath := reach(fn, closureCall, cutNil, nil)
	if errPath(commit) {
		c.Bad(rule, "db.Update:commit-on-error", c.Pos(commit.Pos()), "Commit is reachable although the closure returned an error")
	} else {
		c.OK(rule, "db.Update:commit-on-error", c.Pos(commit.Pos()), "Commit unreachable when the closure's error is non-nil")
	}
	noRb := reach(fn, closureCall, cutNil, func(in ssa.Instruction) bool { return in == ssa.Instruction(rollback) })
	okRb := true
	for _, r := range returnsOf(fn) {
		if noRb(r) {
			okRb = false
			c.Bad(rule, "db.Update:rollback", c.Pos(r.Pos()), "a return is reachable on the closure-error path without Rollback")
		}
		if errPath(r) {
			if good, why := provablyNonNilError(fn, r.Results[len(r.Results)-1], al); !good {
				okRb = false
				c.Bad(rule, "db.Update:rollback", c.Pos(r.Pos()), "on the closure-error path db.Update "+why)
			}
		}
	}
	if okRb {
		c.OK(rule, "db.Update:rollback", c.Pos(rollback.Pos()), "every return on the closure-error path passes Rollback and returns the closure's error")
	}
	// on the success path: Rollback unreachable; every return returns Commit's result
	okPath := reach(fn, closureCall, cutNonNil, nil)
	good := true
	if okPath(rollback) {
		good = false
		c.Bad(rule, "db.Update:commit", c.Pos(rollback.Pos()), "Rollback reachable on the success path")
	}
	for _, r := range returnsOf(fn) {
		if !okPath(r) {
			continue
		}
		fromCommit := false
		valueOrigins(fn, r.Results[len(r.Results)-1], func(root ssa.Value) {
			if root == ssa.Value(commit) {
				fromCommit = true
			} else {
				fromCommit = fromCommit && false
			}
		})
		if !fromCommit {
			good = false
			c.Bad(rule, "db.Update:commit", c.Pos(r.Pos()), "a success-path return does not return the result of Commit (a failed commit would be reported as success)")
		}
	}
	if good {
		c.OK(rule, "db.Update:commit", c.Pos(commit.Pos()), "success path returns Commit's result; Rollback unreachable")
	}
}

// checkTxRunner: the transaction runners db.Update / db.View themselves. Every keystore operation
// acknowledges exactly what its runner reports, so the runner must report every failure: of beginning
// the transaction, of the body, and of the commit (a commit error that is rolled back and then
// reported as success makes every operation acknowledge work that never reached the store).
func checkTxRunner(c *Ctx, rule string) {
	var scope []*ssa.Function
	for _, n := range []string{"Update", "View"} {
		if f := c.MustFn(rule, "poc/wallet/db", n); f != nil {
			scope = append(scope, f)
		}
	}
	isStep := func(fn *ssa.Function, call *ssa.Call) bool {
		if call.Call.IsInvoke() {
			switch call.Call.Method.Name() {
			case "BeginTx", "BeginReadTx", "Commit":
				return true
			}
			return false
		}
		// the body: a call of the function-typed parameter
		if p, ok := call.Call.Value.(*ssa.Parameter); ok && p.Parent() == fn {
			return true
		}
		return false
	}
	runErrflow(c, errflowCfg{
		rule:   rule,
		scope:  scope,
		classK: isStep,
		strict: func(fn *ssa.Function, call *ssa.Call) bool { return true },
		keyOf: func(fn *ssa.Function, call *ssa.Call, ordinal int) string {
			n := "body"
			if call.Call.IsInvoke() {
				n = call.Call.Method.Name()
			}
			return fmt.Sprintf("db.%s:%s#%d", fn.Name(), n, ordinal)
		},
	})
	// and Update commits at all: a successful return is reachable only through Commit
	if f := c.Fn("poc/wallet/db", "Update"); f != nil {
		isCommit := func(in ssa.Instruction) bool {
			cl, ok := in.(*ssa.Call)
			return ok && cl.Call.IsInvoke() && cl.Call.Method.Name() == "Commit"
		}
		r := reach(f, nil, nil, isCommit)
		bad := false
		for _, ret := range returnsOf(f) {
			if r(ret) && isNilErrorReturn(ret) && !isCommit(ret) {
				bad = true
			}
		}
		if bad {
			c.Bad(rule, "db.Update:success-only-after-commit", c.Pos(f.Pos()), "db.Update can report success without having committed the transaction")
		} else {
			c.OK(rule, "db.Update:success-only-after-commit", c.Pos(f.Pos()), "every successful return of db.Update has passed tx.Commit")
		}
	}
}
