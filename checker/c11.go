package main

// C11 — plot files are deleted only on request and loaded only if they match.

import (
	"fmt"
	"go/constant"
	"go/token"
	"go/types"
	"sort"
	"strings"

	"golang.org/x/tools/go/ssa"
)

func init() { register("C11", checkC11) }

// destructive file operations: callee ids, plus OpenFile with O_TRUNC
var destructiveIDs = map[string]bool{
	"os.Remove": true, "os.RemoveAll": true, "os.Rename": true, "os.Truncate": true, "(*os.File).Truncate": true,
	"os.Create": true, "os.WriteFile": true, "io/ioutil.WriteFile": true, "syscall.Unlink": true, "syscall.Rename": true, "syscall.Truncate": true,
}

const oTRUNC = 0x200

func isDestructiveFileOp(in ssa.Instruction) (string, bool) {
	id := calleeID(in)
	if destructiveIDs[id] {
		return id, true
	}
	if id == "os.OpenFile" {
		args := in.(ssa.CallInstruction).Common().Args
		if len(args) >= 2 {
			if k, ok := args[1].(*ssa.Const); ok && k.Value != nil && k.Value.Kind() == constant.Int {
				if v, ok := constant.Int64Val(k.Value); ok && v&oTRUNC != 0 {
					return "os.OpenFile(O_TRUNC)", true
				}
				return "", false
			}
			return "os.OpenFile(non-constant flags)", true
		}
	}
	return "", false
}

// the frozen who-may-destroy table: function -> (operation, what the path argument must derive from)
type destroyRule struct {
	op     string
	argHas func(fn *ssa.Function, s *slice) bool
	why    string
}

func boolEdgeCut(tests []boolTest, cutTrue bool) func(from, to *ssa.BasicBlock) bool {
	return func(from, to *ssa.BasicBlock) bool {
		for _, t := range tests {
			if from == t.If.Block() && t.TrueSucc != t.FalseSucc {
				if cutTrue && to == t.TrueSucc {
					return true
				}
				if !cutTrue && to == t.FalseSucc {
					return true
				}
			}
		}
		return false
	}
}

// wsIndexState: v is the *WorkSpaceMap receiver `sk.workSpaceIndex[K]`; returns K as a string
// ("0".."5") or "dyn" for a non-constant index; "" if v is not such an element.
func wsIndexState(v ssa.Value) string {
	ld, ok := v.(*ssa.UnOp)
	if !ok || ld.Op != token.MUL {
		return ""
	}
	ia, ok := ld.X.(*ssa.IndexAddr)
	if !ok {
		return ""
	}
	if _, f, _, ok := fieldOfValue(ia.X); !ok || f != "workSpaceIndex" {
		return ""
	}
	if k, ok := ia.Index.(*ssa.Const); ok && k.Value != nil {
		return k.Value.ExactString()
	}
	return "dyn"
}

// indexGetTests: boolean tests of the `ok` result of sk.workSpaceIndex[state].Get(..) in fn
func indexGetTests(fn *ssa.Function, pkg string, states ...string) ([]boolTest, int) {
	var tests []boolTest
	n := 0
	for _, c := range callsInShallow(fn, "(*"+pkg+".WorkSpaceMap).Get") {
		st := wsIndexState(callRecv(c))
		hit := false
		for _, s := range states {
			if st == s {
				hit = true
			}
		}
		if !hit {
			continue
		}
		n++
		if ok := resultOf(c, 1); ok != nil {
			tests = append(tests, boolTestsOf(fn, ok)...)
		}
	}
	return tests, n
}

func checkStateGate(c *Ctx, li *lockInfo, rule, pkg, label, method string, sinks []string) {
	f := c.MustFn(rule, strings.TrimPrefix(pkg, repoMod+"/"), "(*SpaceKeeper)."+method)
	if f == nil {
		return
	}
	key := label + "." + method + ":registered-or-ready-gate"
	// engine.Registered == 0, engine.Ready == 2
	tests, n := indexGetTests(f, pkg, "0", "2")
	gateFn := f
	cut := boolEdgeCut(tests, true)
	if n < 2 || len(tests) < 2 {
		// the membership tests may sit in a helper the reference tree does not have: the helper must succeed
		// only behind them, and the method must fail when the helper fails (summary.go)
		found := false
		allInstrs(f, func(in ssa.Instruction) {
			cl, ok := in.(*ssa.Call)
			if !ok || found {
				return
			}
			h := cl.Call.StaticCallee()
			if h == nil || !gNewFuncs[h] {
				return
			}
			// the helper reports "still" by a nil error or by a true `ok` result
			nres := h.Signature.Results().Len()
			byErr := len(errResults(cl)) > 0
			byOK := !byErr && nres > 0 && types.Identical(h.Signature.Results().At(nres-1).Type().Underlying(), types.Typ[types.Bool])
			if !byErr && !byOK {
				return
			}
			ht, hn := indexGetTests(h, pkg, "0", "2")
			if hn < 2 || len(ht) < 2 {
				return
			}
			hr := reach(h, nil, boolEdgeCut(ht, true), nil)
			for _, ret := range returnsOf(h) {
				if !hr(ret) {
					continue
				}
				if byErr && isNilErrorReturn(ret) {
					return // the helper can succeed for a space that is neither registered nor ready
				}
				if byOK {
					if k, isK := strip(ret.Results[nres-1]).(*ssa.Const); !isK || k.Value == nil || k.Value.String() != "false" {
						return
					}
				}
			}
			found = true
			gateFn = h
			if byErr {
				cut = errorEdgeCut(f, cl, false)
			} else {
				var okv ssa.Value = cl
				if nres > 1 {
					okv = resultOf(cl, nres-1)
				}
				ot := boolTestsOf(f, okv)
				if okv == nil || len(ot) == 0 {
					found = false
					return
				}
				cut = boolEdgeCut(ot, true)
			}
		})
		if !found {
			c.Bad(rule, key, c.Pos(f.Pos()), "reason=anchor-missing: no membership tests on workSpaceIndex[Registered] and workSpaceIndex[Ready]")
			return
		}
	}
	r := reach(f, nil, cut, nil)
	bad := false
	nSinks := 0
	// the gate is only a gate if test and effect are one critical section: the membership tests
	// themselves must run with stateLock held for writing (otherwise check-then-act: MineWS or the
	// plotter can change the state between the test and the effect)
	if li != nil {
		for _, g := range callsIn(gateFn, "(*"+pkg+".WorkSpaceMap).Get") {
			st := wsIndexState(callRecv(g))
			if st != "0" && st != "2" {
				continue
			}
			heldW := false
			for k := range li.at[g] {
				if k.Class == pkg+".SpaceKeeper.stateLock" && k.Mode == 'W' {
					heldW = true
				}
			}
			if !heldW {
				bad = true
				c.Bad(rule, key, c.Pos(g.Pos()), "the Registered/Ready membership test runs without stateLock held for writing (lockset "+li.at[g].String()+"): the state can change between the test and the remove/delete effect, so a space that has become plotting or mining is removed or deleted")
			}
		}
	}
	allInstrs(f, func(in ssa.Instruction) {
		id := calleeID(in)
		isSink := false
		for _, s := range sinks {
			if id == s {
				isSink = true
			}
		}
		// index deletes of any state
		if id == "(*"+pkg+".WorkSpaceMap).Delete" {
			isSink = true
		}
		// the disuse effect written out in place (disuseWorkSpace inlined): the space leaves the configured list
		if st, isSt := in.(*ssa.Store); isSt {
			if t, fld, _, ok := fieldOfAddr(st.Addr); ok && ((t == pkg+".WorkSpace" && fld == "using") || (t == pkg+".SpaceKeeper" && fld == "workSpaceList")) {
				isSink = true
				id = "store to " + shortType(t) + "." + fld
			}
		}
		if !isSink {
			return
		}
		nSinks++
		if r(in) {
			bad = true
			c.Bad(rule, key, c.Pos(in.Pos()), shortID(id)+" is reachable for a space that is neither registered nor ready (plotting or mining spaces must be refused)")
		}
	})
	if nSinks == 0 {
		c.Bad(rule, key, c.Pos(f.Pos()), "reason=anchor-missing: no effect (disuse/delete) found in "+method)
	} else if !bad {
		c.OK(rule, key, c.Pos(f.Pos()), fmt.Sprintf("%d effects unreachable unless the space was found in index[Registered] or index[Ready]", nSinks))
	}
}

func checkC11(c *Ctx) Meta {
	c.Rule("C11-WMC", "the set of destructive file operations (Remove/RemoveAll/Rename/Truncate/Create/WriteFile/OpenFile(O_TRUNC)) in non-test repository code equals the frozen table, and each removed path derives from the owning DB's own file path", 6)
	c.Rule("C11-REACH", "MassDB.Delete is reachable from the keeper API only through DeleteWS; RemoveWS reaches no destructive operation", 3)
	c.Rule("C11-GATE", "remove/delete effects lie behind the Registered-or-Ready membership test; MassDBV1.Delete closes and removes only when not plotting", 5)
	c.Rule("C11-LOAD", "in generateInitialIndex, indexing is dominated by: name pattern match, argument parse, wallet ownership and ordinal equality, duplicate miss, successful NewWorkSpace", 6)
	c.Rule("C11-COMPLETE", "the only deletion of plot data outside the delete path is the removal of map A at completion, and it happens only when both plotting passes returned nil (a stop request or an error keeps map A)", 2)
	checkRemoveAfterPasses(c, "C11-COMPLETE")
	c.Rule("C11-ERR", "a pass that did not write its table does not return nil: no storage error and no stop seen on the plotting path is dropped (the C10 error-flow rule as the premise of 'map A is removed only when both passes completed')", 14)
	{
		pre := c.Fn("poc/engine/massdb/massdb.v1", "(*MassDBV1).prePlotWork")
		plot := c.Fn("poc/engine/massdb/massdb.v1", "(*MassDBV1).plotWork")
		upd := c.Fn("poc/engine/massdb/massdb.v1", "(*HashMap).UpdateCheckpoint")
		var scope []*ssa.Function
		for _, f := range []*ssa.Function{pre, plot, upd} {
			if f != nil {
				scope = append(scope, bodyFns(f, nil)...)
			}
		}
		runErrflow(c, errflowCfg{rule: "C11-ERR", scope: scope, classK: plotErrClass,
			strict: func(fn *ssa.Function, call *ssa.Call) bool { return true }})
	}
	c.Rule("C11-INDEX", "the state gate of remove/delete reads indexes that agree with the space's state: every transition of the keeper deletes the space from the index of the state it leaves, sets it in the index of the state it enters and stores that state (the C09 transition extraction, here as the premise of the gate)", 14)
	c09TransRule = "C11-INDEX"
	checkTransitions(c, pkgCapacity, "capacity")
	checkTransitions(c, pkgSkchia, "skchia")
	c09TransRule = "C09-TRANS"
	c.Rule("C11-STATE", "ready or registered is derived from the recorded progress: OpenDB treats a space as unfinished exactly when map B's checkpoint says so (not from the presence of companion files)", 1)
	checkMapALoadedByProgressOnly(c, "C11-STATE")
	checkCheckpointCodec(c, "C11-STATE")
	c.Rule("C11-HEADER", "on the open path a comparison guarding success relates data read from the file header (HashMap.pk/pkHash/bl) to the requested key and bit length (non-vacuous header-vs-name check); loadHashMap validates file code, version, key hash and map type", 7)

	checkWhoMayDestroy(c, "C11-WMC")

	// ---- REACH: who reaches MassDB.Delete
	for _, spec := range []struct{ pkg, label string }{{pkgCapacity, "capacity"}, {pkgSkchia, "skchia"}} {
		short := strings.TrimPrefix(spec.pkg, repoMod+"/")
		exports := exportedFuncs(c, spec.pkg)
		delWS := c.Fn(short, "(*SpaceKeeper).DeleteWS")
		wsDelete := c.Fn(short, "(*WorkSpace).Delete")
		if delWS == nil || wsDelete == nil {
			c.Bad("C11-REACH", spec.label+":anchor", "", "reason=anchor-missing: DeleteWS or WorkSpace.Delete not found")
			continue
		}
		var roots []*ssa.Function
		for _, e := range exports {
			if e != delWS && e != wsDelete && !strings.Contains(e.String(), "WorkSpace).") {
				roots = append(roots, e)
			}
		}
		seen := c.Reachable(roots, func(from *ssa.Function, e callEdge) bool {
			return e.Callee != delWS && strings.HasPrefix(pkgOf(e.Callee), spec.pkg)
		})
		key := spec.label + ":WorkSpace.Delete-only-via-DeleteWS"
		if seen[wsDelete] != nil {
			c.Bad("C11-REACH", key, c.Pos(wsDelete.Pos()), "WorkSpace.Delete (which erases plot files) is reachable without passing DeleteWS: "+pathTo(seen, wsDelete))
		} else {
			c.OK("C11-REACH", key, c.Pos(wsDelete.Pos()), fmt.Sprintf("not reachable from %d other exported keeper functions when DeleteWS is removed from the graph", len(roots)))
		}
	}
	// RemoveWS reaches no destructive op (whole-repo reachability)
	if rm := c.MustFn("C11-REACH", "poc/engine/spacekeeper/capacity", "(*SpaceKeeper).RemoveWS"); rm != nil {
		seen := c.Reachable([]*ssa.Function{rm}, func(from *ssa.Function, e callEdge) bool { return inRepo(e.Callee) })
		bad := false
		for f := range seen {
			allInstrs(f, func(in ssa.Instruction) {
				if op, ok := isDestructiveFileOp(in); ok {
					bad = true
					c.Bad("C11-REACH", "capacity.RemoveWS:erases-nothing", c.Pos(in.Pos()), "RemoveWS reaches "+op+" through "+pathTo(seen, f))
				}
			})
		}
		if !bad {
			c.OK("C11-REACH", "capacity.RemoveWS:erases-nothing", c.Pos(rm.Pos()), fmt.Sprintf("%d functions reachable from RemoveWS, none contains a destructive file operation", len(seen)))
		}
	}

	// ---- GATE
	liOf := func(pkg string) *lockInfo {
		scope := map[*ssa.Function]bool{}
		for fn := range c.AllFuncs {
			if pkgOf(fn) == pkg {
				scope[fn] = true
			}
		}
		return computeLocksets(c, scope, map[string]bool{}, func(fn *ssa.Function) bool { return isExportedFunc(fn) })
	}
	liCap, liChia := liOf(pkgCapacity), liOf(pkgSkchia)
	checkStateGate(c, liCap, "C11-GATE", pkgCapacity, "capacity", "RemoveWS", []string{"(*" + pkgCapacity + ".SpaceKeeper).disuseWorkSpace"})
	checkStateGate(c, liCap, "C11-GATE", pkgCapacity, "capacity", "DeleteWS", []string{"(*" + pkgCapacity + ".SpaceKeeper).disuseWorkSpace", "(*" + pkgCapacity + ".WorkSpace).Delete"})
	checkStateGate(c, liChia, "C11-GATE", pkgSkchia, "skchia", "RemoveWS", []string{"(*" + pkgSkchia + ".SpaceKeeper).disuseWorkSpace"})
	checkStateGate(c, liChia, "C11-GATE", pkgSkchia, "skchia", "DeleteWS", []string{"(*" + pkgSkchia + ".SpaceKeeper).disuseWorkSpace", "(*" + pkgSkchia + ".WorkSpace).Delete"})
	if f := c.MustFn("C11-GATE", "poc/engine/massdb/massdb.v1", "(*MassDBV1).Delete"); f != nil {
		key := "MassDBV1.Delete:refuses-while-plotting"
		var tests []boolTest
		allInstrs(f, func(in ssa.Instruction) {
			bo, ok := in.(*ssa.BinOp)
			if !ok || (bo.Op != token.EQL && bo.Op != token.NEQ) {
				return
			}
			sl := backSlice(bo)
			if !sl.hasField(pkgMassDBV1+".MassDBV1", "plotting") {
				return
			}
			k, isK := bo.Y.(*ssa.Const)
			if !isK || k.Value == nil || k.Value.ExactString() != "0" {
				return
			}
			for _, t := range boolTestsOf(f, bo) {
				// normalise: TrueSucc := edge where plotting == 0
				if bo.Op == token.NEQ {
					t.TrueSucc, t.FalseSucc = t.FalseSucc, t.TrueSucc
				}
				tests = append(tests, t)
			}
		})
		if len(tests) == 0 {
			c.Bad("C11-GATE", key, c.Pos(f.Pos()), "no test of the plotting flag in MassDBV1.Delete")
		} else {
			r := reach(f, nil, boolEdgeCut(tests, true), nil)
			bad := false
			n := 0
			allInstrs(f, func(in ssa.Instruction) {
				_, isGo := in.(*ssa.Go)
				if isGo || callName(in) == "Close" {
					n++
					if r(in) {
						bad = true
						c.Bad("C11-GATE", key, c.Pos(in.Pos()), "files are closed/removed on a path where the DB may be plotting")
					}
				}
			})
			if n == 0 {
				c.Bad("C11-GATE", key, c.Pos(f.Pos()), "reason=anchor-missing: no close/remove effect found")
			} else if !bad {
				c.OK("C11-GATE", key, c.Pos(f.Pos()), "close and remove are unreachable unless plotting == 0")
			}
		}
	}

	// ---- LOAD
	if f := c.MustFn("C11-LOAD", "poc/engine/spacekeeper/capacity", "generateInitialIndex"); f != nil {
		f0 := f
		adds := callsIn(f, "(*"+pkgCapacity+".SpaceKeeper).addWorkSpaceToIndex")
		if len(adds) == 0 {
			c.Bad("C11-LOAD", "generateInitialIndex:anchor", c.Pos(f.Pos()), "reason=anchor-missing: no addWorkSpaceToIndex call")
		} else {
			// the scan loop may sit in a phase helper the reference tree does not have: the load checks
			// are evaluated in the function that holds the indexing call
			f = hostFn(f, adds[0])
		}
		mustCut := func(key, what string, cut func(from, to *ssa.BasicBlock) bool, found bool) {
			if !found {
				c.Bad("C11-LOAD", key, c.Pos(f.Pos()), "check not found: "+what)
				return
			}
			// walked from the anchored function: a check may sit in it while the indexing call sits in a
			// helper (reach follows the helper's call and walks the helper from its entry with the same cut)
			r := reach(f0, nil, cut, nil)
			for _, a := range adds {
				if r(a) {
					c.Bad("C11-LOAD", key, c.Pos(a.Pos()), "a file is indexed on a path that does not pass: "+what)
					return
				}
			}
			c.OK("C11-LOAD", key, c.Pos(f.Pos()), "indexing unreachable unless "+what)
		}
		// a. name pattern
		var t []boolTest
		for _, m := range callsIn(f0, "(*regexp.Regexp).MatchString") {
			th := boolTestsOf(m.Parent(), m)
			t = append(t, th...)
			t = append(t, liftBoolGate(m.Parent(), th)...)
		}
		mustCut("generateInitialIndex:name-pattern", "the file name matches the plot-file pattern", boolEdgeCut(t, true), len(t) > 0)
		// b. parse
		ps := callsIn(f, pkgCapacity+".parseMassDBArgsFromString")
		if len(ps) == 1 {
			mustCut("generateInitialIndex:parse-args", "parseMassDBArgsFromString succeeded", errorEdgeCut(f, ps[0], false), len(errResults(ps[0])) > 0)
		} else {
			c.Bad("C11-LOAD", "generateInitialIndex:parse-args", c.Pos(f.Pos()), "reason=anchor-missing: parseMassDBArgsFromString call")
		}
		// c. wallet ownership + ordinal equality
		gs := callsIn(f, "("+pkgCapacity+".PoCWallet).GetPublicKeyOrdinal")
		if len(gs) == 1 && len(ps) == 1 {
			exists := resultOf(gs[0], 1)
			var te []boolTest
			if exists != nil {
				te = boolTestsOf(f, exists)
			}
			mustCut("generateInitialIndex:wallet-owns-key", "the wallet owns the key in the name", boolEdgeCut(te, true), len(te) > 0)
			// ordinal comparison
			var tc []boolTest
			ord, idx := resultOf(gs[0], 0), resultOf(ps[0], 0)
			allInstrs(f, func(in ssa.Instruction) {
				bo, ok := in.(*ssa.BinOp)
				if !ok || (bo.Op != token.EQL && bo.Op != token.NEQ) || ord == nil || idx == nil {
					return
				}
				sx, sy := backSlice(bo.X), backSlice(bo.Y)
				if (sx.has(idx) && sy.has(ord)) || (sx.has(ord) && sy.has(idx)) {
					if lc := lossyConversion(bo.X); lc != "" {
						c.Bad("C11-LOAD", "generateInitialIndex:ordinal-equals-wallet", c.Pos(bo.Pos()), "the ordinal comparison is not exact: an operand passes through the narrowing conversion "+lc+", so a file name ordinal congruent to the wallet's ordinal modulo 2^32 is accepted")
						return
					}
					if lc := lossyConversion(bo.Y); lc != "" {
						c.Bad("C11-LOAD", "generateInitialIndex:ordinal-equals-wallet", c.Pos(bo.Pos()), "the ordinal comparison is not exact: an operand passes through the narrowing conversion "+lc+", so a file name ordinal congruent to the wallet's ordinal modulo 2^32 is accepted")
						return
					}
					for _, bt := range boolTestsOf(f, bo) {
						if bo.Op == token.NEQ {
							bt.TrueSucc, bt.FalseSucc = bt.FalseSucc, bt.TrueSucc
						}
						tc = append(tc, bt)
					}
				}
			})
			mustCut("generateInitialIndex:ordinal-equals-wallet", "the ordinal in the file name equals the wallet's ordinal for that key", boolEdgeCut(tc, true), len(tc) > 0)
			// the key looked up is the parsed key
			if !backSlice(gs[0].Call.Args[0]).has(resultOf(ps[0], 1)) {
				c.Bad("C11-LOAD", "generateInitialIndex:wallet-owns-key", c.Pos(gs[0].Pos()), "the wallet is asked about a key other than the one parsed from the file name")
			}
		} else {
			c.Bad("C11-LOAD", "generateInitialIndex:wallet-owns-key", c.Pos(f.Pos()), "reason=anchor-missing: GetPublicKeyOrdinal call")
		}
		// d. duplicate miss in index[all]
		td, n := indexGetTests(f, pkgCapacity, "4")
		mustCut("generateInitialIndex:duplicate-miss", "no space with the same id is indexed yet", boolEdgeCut(td, false), n > 0 && len(td) > 0)
		// e. NewWorkSpace ok
		nw := callsIn(f, pkgCapacity+".NewWorkSpace")
		if len(nw) == 1 {
			mustCut("generateInitialIndex:open-ok", "NewWorkSpace (open + header validation) succeeded", errorEdgeCut(f, nw[0], false), len(errResults(nw[0])) > 0)
			// the indexed workspace is the opened one, opened from the parsed name in the scanned directory
			okArgs := len(ps) == 1 && backSlice(nw[0].Call.Args[3]).has(resultOf(ps[0], 1)) && backSlice(nw[0].Call.Args[4]).has(resultOf(ps[0], 2))
			for _, a := range adds {
				if !backSlice(a.Call.Args[1]).has(resultOf(nw[0], 0)) {
					okArgs = false
				}
			}
			if !okArgs {
				c.Bad("C11-LOAD", "generateInitialIndex:open-ok", c.Pos(nw[0].Pos()), "the space indexed is not the one opened from the key and bit length parsed from the file name")
			}
		} else {
			c.Bad("C11-LOAD", "generateInitialIndex:open-ok", c.Pos(f.Pos()), "reason=anchor-missing: NewWorkSpace call")
		}
	}

	// ---- HEADER
	checkHeaderVsName(c)
	checkLoadHashMap(c)

	return Meta{
		Explanation: "Who-may-destroy census over every non-test function of the repository (type-resolved callees, constant flags), call-graph cuts showing plot files are erased only through DeleteWS, edge-cut dominance of the state gates and of every load check in generateInitialIndex, and a provenance rule requiring a real header-vs-name comparison on the open path.",
		NotDecided:  "behaviour for all directory contents (values); 'exactly once' beyond the duplicate gate; content of the regular expression.",
		Trusted:     []string{"go/ssa", "frozen who-may-destroy table (6 entries, one reason each)", "engine.Registered==0, engine.Ready==2, allState==4 (cross-checked by C09)"},
	}
}

// createdInSameFunc: fn opens the same path with O_CREATE before (createMapFile).
func createdInSameFunc(fn *ssa.Function) bool {
	for _, cl := range callsIn(fn, "os.OpenFile") {
		if k, ok := cl.Call.Args[1].(*ssa.Const); ok && k.Value != nil {
			if v, ok := constant.Int64Val(k.Value); ok && v&0x40 != 0 { // O_CREATE
				return true
			}
		}
	}
	return false
}

func headerDerived(s *slice) bool {
	if s.hasField(tHashMap, "pk") || s.hasField(tHashMap, "pkHash") {
		return true
	}
	// accessors of the hash maps
	return s.hasCallTo("(*"+pkgMassDBV1+".HashMapA).PubKey", "(*"+pkgMassDBV1+".HashMapA).PubKeyHash")
}

func headerBLDerived(s *slice) bool {
	return s.hasField(tHashMap, "bl") || s.hasCallTo("(*"+pkgMassDBV1+".HashMapA).BitLength")
}

// directHeader: the operand is (a pure function of) a header field load or a MassDB/HashMap
// identity accessor result — e.g. hmB.pk, hmB.bl, mdb.PubKey().SerializeCompressed().
func directHeader(fn *ssa.Function, v ssa.Value) bool {
	hit := false
	var rec func(x ssa.Value, depth int)
	rec = func(x ssa.Value, depth int) {
		if depth > 6 {
			return
		}
		valueOrigins(fn, x, func(root ssa.Value) {
			if _, f, _, ok := fieldOfValue(root); ok && (f == "pk" || f == "pkHash" || f == "bl") {
				hit = true
				return
			}
			if cl, ok := root.(*ssa.Call); ok {
				name := callName(cl)
				switch name {
				case "PubKey", "PubKeyHash", "BitLength":
					hit = true
				case "SerializeCompressed", "Bytes", "PubKeyHash2":
					if r := callRecv(cl); r != nil {
						rec(r, depth+1)
					}
				}
			}
			if sl, ok := root.(*ssa.Slice); ok {
				rec(sl.X, depth+1)
			}
		})
	}
	rec(v, 0)
	return hit
}

// checkHeaderVsName: in massdb_v1.OpenDB (or, if MassDBV1's identity fields are filled from the
// header there, in capacity.NewWorkSpace) a comparison between header data and the requested
// key / bit length guards the success return.
func checkHeaderVsName(c *Ctx) {
	rule := "C11-HEADER"
	open := c.MustFn(rule, "poc/engine/massdb/massdb.v1", "OpenDB")
	nws := c.MustFn(rule, "poc/engine/spacekeeper/capacity", "NewWorkSpace")
	if open == nil || nws == nil {
		return
	}
	pa := callsIn(open, pkgMassDBV1+".parseArgs")
	if len(pa) != 1 {
		c.Bad(rule, "open-path:anchor", c.Pos(open.Pos()), "reason=anchor-missing: parseArgs call in OpenDB")
		return
	}
	reqKey, reqBL := resultOf(pa[0], 2), resultOf(pa[0], 3)
	// which MassDBV1 identity fields are header-derived when built by OpenDB?
	hdrFields := map[string]bool{}
	for _, a := range fieldAccesses(open) {
		if a.Kind == "store" && a.Type == pkgMassDBV1+".MassDBV1" {
			sl := backSlice(a.In.(*ssa.Store).Val)
			if (a.Field == "pubKey" || a.Field == "pubKeyHash") && headerDerived(sl) {
				hdrFields[a.Field] = true
			}
			if a.Field == "bl" && headerBLDerived(sl) {
				hdrFields[a.Field] = true
			}
		}
	}
	type cmpSite struct {
		fn    *ssa.Function
		tests []boolTest // normalised: TrueSucc = "equal/match"
		what  string
	}
	var keyCmps, blCmps []cmpSite
	classify := func(fn *ssa.Function, x, y ssa.Value, eqTests []boolTest) {
		sx, sy := backSlice(x), backSlice(y)
		isReqKey := func(s *slice) bool {
			if fn == open {
				return reqKey != nil && s.has(reqKey)
			}
			return s.hasParam(fn, "pubKey")
		}
		isReqBL := func(s *slice) bool {
			if fn == open {
				return reqBL != nil && s.has(reqBL)
			}
			return s.hasParam(fn, "bitLength")
		}
		isHdrKey := func(s *slice) bool {
			if fn == open {
				return headerDerived(s)
			}
			// through the MassDB interface accessors, only if OpenDB fills them from the header
			return (s.hasCallTo("("+pkgMassDB+".MassDB).PubKey") && hdrFields["pubKey"]) || (s.hasCallTo("("+pkgMassDB+".MassDB).PubKeyHash") && hdrFields["pubKeyHash"])
		}
		isHdrBL := func(s *slice) bool {
			if fn == open {
				return headerBLDerived(s)
			}
			return s.hasCallTo("("+pkgMassDB+".MassDB).BitLength") && hdrFields["bl"]
		}
		// "direct" = the operand itself is header data (a field load / accessor result), as opposed to
		// merely depending on it; the requested side must not itself be header data, which rules out
		// vacuous comparisons of the header with itself or of the name with itself.
		dx, dy := directHeader(fn, x), directHeader(fn, y)
		if (isReqKey(sx) && !dx && isHdrKey(sy) && dy) || (isReqKey(sy) && !dy && isHdrKey(sx) && dx) {
			keyCmps = append(keyCmps, cmpSite{fn, eqTests, "key"})
		}
		if (isReqBL(sx) && !dx && isHdrBL(sy) && dy) || (isReqBL(sy) && !dy && isHdrBL(sx) && dx) {
			blCmps = append(blCmps, cmpSite{fn, eqTests, "bl"})
		}
	}
	for _, fn := range []*ssa.Function{open, nws} {
		allInstrs(fn, func(in ssa.Instruction) {
			switch x := in.(type) {
			case *ssa.BinOp:
				if x.Op != token.EQL && x.Op != token.NEQ {
					return
				}
				ts := boolTestsOf(fn, x)
				if x.Op == token.NEQ {
					for i := range ts {
						ts[i].TrueSucc, ts[i].FalseSucc = ts[i].FalseSucc, ts[i].TrueSucc
					}
				}
				if len(ts) > 0 {
					classify(fn, x.X, x.Y, ts)
				}
			case *ssa.Call:
				id := calleeID(x)
				if id == "bytes.Equal" && len(x.Call.Args) == 2 {
					if ts := boolTestsOf(fn, x); len(ts) > 0 {
						classify(fn, x.Call.Args[0], x.Call.Args[1], ts)
					}
				}
				if strings.HasSuffix(id, "pocec.PublicKey).IsEqual") && len(x.Call.Args) == 2 {
					if ts := boolTestsOf(fn, x); len(ts) > 0 {
						classify(fn, x.Call.Args[0], x.Call.Args[1], ts)
					}
				}
			}
		})
	}
	guard := func(key, what string, cmps []cmpSite) {
		if len(cmps) == 0 {
			c.Bad(rule, key, c.Pos(open.Pos()), "no comparison on the open path relates the "+what+" stored in the file header to the "+what+" requested by the file name: OpenDB fills MassDBV1's identity from its own arguments, so NewWorkSpace's check compares the name with itself and a renamed or foreign-header file is indexed")
			return
		}
		// at least one of the comparisons found must guard every success return of its function
		for _, cs := range cmps {
			r := reach(cs.fn, nil, boolEdgeCut(cs.tests, true), nil)
			guards := true
			for _, ret := range returnsOf(cs.fn) {
				if isNilErrorReturn(ret) && r(ret) {
					guards = false
				}
			}
			if guards {
				c.OK(rule, key, c.Pos(cs.tests[0].If.Pos()), "success of "+cs.fn.Name()+" requires header "+what+" == requested "+what)
				return
			}
		}
		c.Bad(rule, key, c.Pos(cmps[0].fn.Pos()), "a header-vs-name comparison of the "+what+" exists but no such comparison guards every success return of its function")
	}
	guard("open-path:header-key-vs-name", "public key", keyCmps)
	guard("open-path:header-bitlength-vs-name", "bit length", blCmps)

	// each file opened is checked against the name with its *own* header: for every LoadHashMap in
	// OpenDB a key comparison and a bit-length comparison whose header operand comes from that very
	// map guard every success return reachable after the load
	loads := callsIn(open, pkgMassDBV1+".LoadHashMap")
	for i, ld := range loads {
		obj := resultOf(ld, 0)
		for _, kind := range []string{"key", "bl"} {
			key := fmt.Sprintf("open-path:map#%d-own-header-%s-vs-name", i+1, kind)
			var own []boolTest
			for _, cs := range append(append([]cmpSite{}, keyCmps...), blCmps...) {
				if cs.fn != open || cs.what != kind {
					continue
				}
				for _, t := range cs.tests {
					// the header operand of this comparison belongs to the map loaded by ld
					var operands []ssa.Value
					switch x := t.If.Cond.(type) {
					case *ssa.BinOp:
						operands = []ssa.Value{x.X, x.Y}
					case *ssa.Call:
						operands = x.Call.Args
					case *ssa.UnOp: // !IsEqual(...)
						if cl, ok := x.X.(*ssa.Call); ok {
							operands = cl.Call.Args
						}
						if bo, ok := x.X.(*ssa.BinOp); ok {
							operands = []ssa.Value{bo.X, bo.Y}
						}
					}
					for _, o := range operands {
						if directHeader(open, o) && backSlice(o).has(obj) {
							own = append(own, t)
						}
					}
				}
			}
			if len(own) == 0 {
				c.Bad(rule, key, c.Pos(ld.Pos()), "the file loaded here is never compared with the name through its own header ("+kind+"): a renamed or copied-over file with another key's header is opened and indexed")
				continue
			}
			r := reach(open, ld, boolEdgeCut(own, true), nil)
			guards := true
			for _, ret := range returnsOf(open) {
				if isNilErrorReturn(ret) && r(ret) {
					guards = false
				}
			}
			if guards {
				c.OK(rule, key, c.Pos(own[0].If.Pos()), "after this load OpenDB succeeds only if the map's own header "+kind+" equals the requested one")
			} else {
				c.Bad(rule, key, c.Pos(ld.Pos()), "OpenDB can succeed after this load without the map's own header "+kind+" having matched the name")
			}
		}
	}
	if len(loads) != 2 {
		c.Bad(rule, "open-path:loads", c.Pos(open.Pos()), fmt.Sprintf("reason=anchor-missing: expected the loads of map B and map A in OpenDB, found %d", len(loads)))
	}
}

func checkLoadHashMap(c *Ctx) {
	rule := "C11-HEADER"
	f := c.MustFn(rule, "poc/engine/massdb/massdb.v1", "loadHashMap")
	if f == nil {
		return
	}
	succReturns := func(cut func(from, to *ssa.BasicBlock) bool) bool {
		r := reach(f, nil, cut, nil)
		for _, ret := range returnsOf(f) {
			if isNilErrorReturn(ret) && !isFailureHelperReturn(f, ret) && r(ret) {
				return true
			}
		}
		return false
	}
	check := func(key, what string, tests []boolTest) {
		if len(tests) == 0 {
			c.Bad(rule, key, c.Pos(f.Pos()), "check not found: "+what)
			return
		}
		// a check that sits in a phase helper the reference tree does not have (header decoding split off):
		// the helper reports by error — inside it no possibly-successful return is reachable unless the check
		// passed, and loadHashMap succeeds only behind the nil-error edge of the helper's call
		var own []boolTest
		for _, t := range tests {
			h := t.If.Parent()
			if h == f || lexicalOutermost(h) == lexicalOutermost(f) {
				own = append(own, t)
				continue
			}
			var same []boolTest
			for _, t2 := range tests {
				if t2.If.Parent() == h {
					same = append(same, t2)
				}
			}
			rh := reach(h, nil, boolEdgeCut(same, true), nil)
			escapes := false
			for _, ret := range returnsOf(h) {
				if rh(ret) && (isNilErrorReturn(ret) || len(errResultsOfFn(h)) == 0) {
					escapes = true
				}
			}
			site, _ := siteIn(f, t.If).(*ssa.Call)
			if escapes || site == nil || succReturns(errorEdgeCut(f, site, false)) {
				c.Bad(rule, key, c.Pos(t.If.Cond.Pos()), "loadHashMap can succeed without passing: "+what+" (the check sits in "+FuncName(h)+", whose verdict does not gate the success)")
			} else {
				c.OK(rule, key, c.Pos(t.If.Cond.Pos()), "success unreachable unless "+what+" (checked in "+FuncName(h)+", which reports by error)")
			}
			return
		}
		tests = own
		if succReturns(boolEdgeCut(tests, true)) {
			c.Bad(rule, key, c.Pos(f.Pos()), "loadHashMap can succeed without passing: "+what)
		} else {
			c.OK(rule, key, c.Pos(f.Pos()), "success unreachable unless "+what)
		}
	}
	var codeT, verT, hashT []boolTest
	allInstrsNew(f, func(in ssa.Instruction) {
		f := in.Parent()
		switch x := in.(type) {
		case *ssa.Call:
			if calleeID(x) == "bytes.Equal" {
				s0, s1 := backSlice(x.Call.Args[0]), backSlice(x.Call.Args[1])
				if s0.hasGlobal(pkgMassDB, "DBFileCode") || s1.hasGlobal(pkgMassDB, "DBFileCode") {
					codeT = append(codeT, boolTestsOf(f, x)...)
				}
			}
		case *ssa.BinOp:
			if x.Op != token.EQL && x.Op != token.NEQ {
				return
			}
			norm := func(ts []boolTest) []boolTest {
				if x.Op == token.NEQ {
					for i := range ts {
						ts[i].TrueSucc, ts[i].FalseSucc = ts[i].FalseSucc, ts[i].TrueSucc
					}
				}
				return ts
			}
			sx, sy := backSlice(x.X), backSlice(x.Y)
			if k, ok := x.Y.(*ssa.Const); ok && k.Value != nil && k.Value.ExactString() == "1" && sx.hasCallTo("(encoding/binary.littleEndian).Uint64") {
				verT = append(verT, norm(boolTestsOf(f, x))...)
			}
			if (sx.hasField(tHashMap, "pkHash") && sy.hasCallTo("github.com/massnetorg/mass-core/poc/pocutil.PubKeyHash")) ||
				(sy.hasField(tHashMap, "pkHash") && sx.hasCallTo("github.com/massnetorg/mass-core/poc/pocutil.PubKeyHash")) {
				hashT = append(hashT, norm(boolTestsOf(f, x))...)
			}
		}
	})
	check("loadHashMap:file-code", "the file code equals massdb.DBFileCode", codeT)
	check("loadHashMap:version", "the version equals dbVersion", verT)
	check("loadHashMap:pubkey-hash", "the stored key hash equals PubKeyHash(stored key)", hashT)
	for _, spec := range []struct{ key, id, what string }{
		{"loadHashMap:map-type", pkgMassDBV1 + ".calcProofDataOffset", "the map type is valid"},
		{"loadHashMap:pubkey-parses", "github.com/massnetorg/mass-core/pocec.ParsePubKey", "the stored public key parses"},
		{"loadHashMap:header-read", "(*os.File).ReadAt", "the header was read completely"},
	} {
		cs := callsIn(f, spec.id)
		if len(cs) != 1 || len(errResults(cs[0])) == 0 {
			c.Bad(rule, spec.key, c.Pos(f.Pos()), "check not found: "+spec.what)
			continue
		}
		if succReturns(errorEdgeCut(f, cs[0], false)) {
			c.Bad(rule, spec.key, c.Pos(cs[0].Pos()), "loadHashMap can succeed without passing: "+spec.what)
		} else {
			c.OK(rule, spec.key, c.Pos(cs[0].Pos()), "success unreachable unless "+spec.what)
		}
	}
}

// isFailureHelperReturn: `return failureReturn(err)` — the result of a local closure that returns its
// argument; not a success return.
func isFailureHelperReturn(fn *ssa.Function, r *ssa.Return) bool {
	last := r.Results[len(r.Results)-1]
	isHelper := false
	valueOrigins(fn, last, func(root ssa.Value) {
		if ex, ok := root.(*ssa.Extract); ok {
			if cl, ok := ex.Tuple.(*ssa.Call); ok {
				if cl.Call.StaticCallee() != nil && cl.Call.StaticCallee().Parent() != nil {
					isHelper = true
				}
				if _, ok := cl.Call.Value.(*ssa.MakeClosure); ok {
					isHelper = true
				}
				if _, ok := cl.Call.Value.(*ssa.UnOp); ok { // call through a local variable holding the closure
					isHelper = true
				}
			}
		}
	})
	return isHelper
}

// lossyConversion: the operand chain (conversions only) contains an integer conversion that can lose
// information (narrowing, or same width with a sign change); returns a description or "".
func lossyConversion(v ssa.Value) string {
	for {
		switch x := v.(type) {
		case *ssa.Convert:
			from, ok1 := x.X.Type().Underlying().(*types.Basic)
			to, ok2 := x.Type().Underlying().(*types.Basic)
			if ok1 && ok2 && from.Info()&types.IsInteger != 0 && to.Info()&types.IsInteger != 0 {
				fs, ts := intBits(from), intBits(to)
				fu, tu := from.Info()&types.IsUnsigned != 0, to.Info()&types.IsUnsigned != 0
				if ts < fs || (ts == fs && fu != tu) || (!fu && tu && ts >= fs && false) {
					return from.Name() + "->" + to.Name()
				}
				// signed -> wider unsigned loses the sign of negatives; unsigned -> wider signed is exact
				if !fu && tu {
					return from.Name() + "->" + to.Name()
				}
			}
			v = x.X
		case *ssa.ChangeType:
			v = x.X
		default:
			return ""
		}
	}
}

func intBits(b *types.Basic) int {
	switch b.Kind() {
	case types.Int8, types.Uint8:
		return 8
	case types.Int16, types.Uint16:
		return 16
	case types.Int32, types.Uint32:
		return 32
	default:
		return 64
	}
}


// checkWhoMayDestroy: the frozen who-may-destroy table over the whole repository (shared by C11 and,
// as "nobody removes the wallet store", by C19).
func checkWhoMayDestroy(c *Ctx, ruleID string) {
	// ---- WMC
	allowed := map[string]destroyRule{
		"(*poc/engine/massdb/massdb.v1.MassDBV1).Delete$2|os.Remove": {why: "delete path: the DB's own files",
			argHas: func(fn *ssa.Function, s *slice) bool {
				return s.hasField(pkgMassDBV1+".MassDBV1", "filePathA") || s.hasField(pkgMassDBV1+".MassDBV1", "filePathB")
			}},
		"(*poc/engine/massdb/massdb.v1.MassDBV1).executePlot|os.Remove": {why: "map A after plot completion",
			argHas: func(fn *ssa.Function, s *slice) bool { return s.hasField(pkgMassDBV1+".MassDBV1", "filePathA") }},
		"poc/engine/massdb/massdb.v1.createMapFile$1|os.Remove": {why: "cleanup of the file just created",
			argHas: func(fn *ssa.Function, s *slice) bool {
				return s.hasParam(lexicalOutermost(fn), "filePath") && createdInSameFunc(lexicalOutermost(fn))
			}},
		"poc/engine/spacekeeper/capacity.upgradeMassDBFile$1|os.Rename": {why: "legacy name upgrade (rename, content untouched)",
			argHas: func(fn *ssa.Function, s *slice) bool { return true }},
		"(*api.Server).ExportKeystore|os.OpenFile(O_TRUNC)": {why: "keystore JSON export file, name ends in .json",
			argHas: func(fn *ssa.Function, s *slice) bool { return s.hasGlobal(repoMod+"/api", "keystoreFileNamePrefix") }},
		"cmd/massminercli/cmd.glob..func6|io/ioutil.WriteFile": {why: "CLI client tool (separate binary), writes its own output file"},
	}
	seenAllowed := map[string]bool{}
	fns := []*ssa.Function{}
	for fn := range c.AllFuncs {
		fns = append(fns, fn)
	}
	sort.Slice(fns, func(i, j int) bool { return FuncName(fns[i]) < FuncName(fns[j]) })
	for _, fn := range fns {
		if strings.HasPrefix(pkgOf(fn), repoMod+"/api/proto") {
			continue
		}
		allInstrsShallow(fn, func(in ssa.Instruction) {
			op, ok := isDestructiveFileOp(in)
			if !ok {
				return
			}
			name := FuncName(fn)
			if lo := lexicalOutermost(fn); gNewFuncs[lo] && fn == lo {
				// a helper the reference tree does not have acts for the one reference function all its uses
				// come from (the path it removes is still judged by that entry's rule)
				if o := ownerOfNew(lo, 4); o != nil {
					name = FuncName(o)
				}
			}
			if strings.HasPrefix(pkgOf(fn), repoMod+"/cmd/massminercli") {
				// separate client binary: it has no access to the miner's plot directories by code path
				c.OK(ruleID, "cli:"+name+"|"+op, c.Pos(in.Pos()), "client binary, outside the miner process")
				return
			}
			key := name + "|" + op
			dr, isAllowed := allowed[key]
			if !isAllowed {
				c.Bad(ruleID, key, c.Pos(in.Pos()), "destructive file operation "+op+" in "+name+" is not in the who-may-destroy table: only the delete path, plot completion, create-failure cleanup, legacy rename and keystore export may remove, rename or truncate files")
				return
			}
			seenAllowed[key] = true
			args := in.(ssa.CallInstruction).Common().Args
			if dr.argHas != nil && len(args) > 0 {
				if !dr.argHas(fn, backSlice(args[0])) {
					c.Bad(ruleID, key, c.Pos(in.Pos()), "the path handed to "+op+" does not derive from "+dr.why)
					return
				}
			}
			c.OK(ruleID, key, c.Pos(in.Pos()), dr.why)
		})
	}
	for k := range allowed {
		if !seenAllowed[k] && !strings.HasPrefix(k, "cmd/") {
			c.Note("who-may-destroy entry %s no longer present in the tree (fewer destructive sites than the table allows)", k)
		}
	}

}

// checkCheckpointCodec: the recorded progress is read back with the width it was written with: the
// header's checkpoint is written by PutUint64 and every decode that feeds HashMap.checkpoint (or the
// result of ReadCheckpoint) is Uint64 of the same byte order. A 32-bit decode reads 0 for every
// checkpoint that is a multiple of 2^32 — a complete plot of bit length 34+ comes up registered at 0 %.
func checkCheckpointCodec(c *Ctx, rule string) {
	key := "checkpoint:decoded-with-the-width-it-was-written"
	wr := c.MustFn(rule, "poc/engine/massdb/massdb.v1", "(*HashMap).UpdateCheckpoint")
	if wr == nil {
		return
	}
	codecCalls := func(s *slice) []string {
		var out []string
		for v := range s.vals {
			if cl, ok := v.(*ssa.Call); ok && strings.Contains(calleeID(cl), "encoding/binary.") {
				out = append(out, shortID(calleeID(cl)))
			}
		}
		sort.Strings(out)
		return out
	}
	// writer: the Put call fed by the checkpoint field
	wWidth := ""
	allInstrs(wr, func(in ssa.Instruction) {
		cl, ok := in.(*ssa.Call)
		if !ok || !strings.Contains(calleeID(cl), "encoding/binary.") || !strings.Contains(callName(cl), "PutUint") {
			return
		}
		if backSlice(cl.Call.Args[len(cl.Call.Args)-1]).hasField(tHashMap, "checkpoint") {
			wWidth = strings.TrimPrefix(callName(cl), "Put") + "@" + strings.TrimSuffix(shortID(calleeID(cl)), "."+callName(cl))
		}
	})
	if wWidth == "" {
		c.Bad(rule, key, c.Pos(wr.Pos()), "reason=anchor-missing: UpdateCheckpoint no longer encodes HashMap.checkpoint with encoding/binary")
		return
	}
	n := 0
	var bad []string
	check := func(fn *ssa.Function, v ssa.Value, what string, pos token.Pos) {
		for _, id := range codecCalls(backSlice(v)) {
			i := strings.LastIndex(id, ".")
			got := id[i+1:] + "@" + id[:i]
			n++
			if got != wWidth {
				bad = append(bad, fmt.Sprintf("%s at %s decodes with %s, the writer uses Put%s", what, c.Pos(pos), id, strings.Replace(wWidth, "@", " of ", 1)))
			}
		}
	}
	for fn := range c.AllFuncs {
		if pkgOf(fn) != pkgMassDBV1 {
			continue
		}
		for _, a := range fieldAccessesShallow(fn) {
			if a.Kind == "store" && a.Type == tHashMap && a.Field == "checkpoint" {
				check(fn, a.In.(*ssa.Store).Val, "the checkpoint loaded in "+fn.Name(), a.In.Pos())
			}
		}
	}
	if rd := c.Fn("poc/engine/massdb/massdb.v1", "(*HashMap).ReadCheckpoint"); rd != nil {
		for _, ret := range returnsOf(rd) {
			check(rd, ret.Results[0], "ReadCheckpoint", ret.Pos())
		}
	}
	sort.Strings(bad)
	switch {
	case len(bad) > 0:
		c.Bad(rule, key, "", strings.Join(bad, "; ")+": progress recorded as 2^k (k >= 32) reads back as 0, so a complete plot is taken for an empty one and plotted again beside it")
	case n == 0:
		c.Bad(rule, key, c.Pos(wr.Pos()), "reason=anchor-missing: no decode of the header checkpoint found")
	default:
		c.OK(rule, key, c.Pos(wr.Pos()), fmt.Sprintf("%d decode(s) of the checkpoint, all %s like the writer", n, strings.Replace(wWidth, "@", " of ", 1)))
	}
}

// errResultsOfFn: the error-typed results of a function's signature (indices).
func errResultsOfFn(h *ssa.Function) []int {
	var out []int
	res := h.Signature.Results()
	for i := 0; i < res.Len(); i++ {
		if isErrorType(res.At(i).Type()) {
			out = append(out, i)
		}
	}
	return out
}

// liftBoolGate: tests sit in a helper h the reference tree does not have that reports by a bool result
// (`args, ok := splitName(…)`): if every return of h that is reachable without passing a true edge of the
// tests hands back the constant false in some bool result j, then at each call site of h (in the anchored
// function's body) the tests of result j are the caller's form of the same gate. Returns those tests.
func liftBoolGate(h *ssa.Function, tests []boolTest) []boolTest {
	if h == nil || !gNewFuncs[h] || len(tests) == 0 {
		return nil
	}
	rh := reach(h, nil, boolEdgeCut(tests, true), nil)
	res := h.Signature.Results()
	var out []boolTest
	for j := 0; j < res.Len(); j++ {
		if b, ok := res.At(j).Type().Underlying().(*types.Basic); !ok || b.Info()&types.IsBoolean == 0 {
			continue
		}
		allFalse, passes := true, false
		for _, ret := range returnsOf(h) {
			if j >= len(ret.Results) {
				allFalse = false
				continue
			}
			if !rh(ret) {
				passes = true
				continue
			}
			k, isK := strip(ret.Results[j]).(*ssa.Const)
			if !isK || k.Value == nil || k.Value.String() != "false" {
				// a spilled named result: judge the stored value
				allFalse = false
			}
		}
		if !allFalse || !passes {
			continue
		}
		for _, site := range sitesOf(h) {
			cl, isCall := site.(*ssa.Call)
			if !isCall {
				continue
			}
			if v := resultOf(cl, j); v != nil {
				out = append(out, boolTestsOf(cl.Parent(), v)...)
			}
		}
	}
	return out
}
