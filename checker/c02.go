package main

// C02 — wallet state survives restart exactly (structure).

import (
	"fmt"
	"go/types"
	"sort"
	"strings"

	"golang.org/x/tools/go/ssa"
)

func init() { register("C02", checkC02) }

// ---- key summaries -------------------------------------------------------------------------

// keyNamesOf: names of the package-level key variables of the keystore package in the backward
// slice of a bucket key expression; a key built from run-time values is "<dyn>".
func keyNamesOf(v ssa.Value) []string {
	set := map[string]bool{}
	for x := range backSlice(v).vals {
		if g, ok := x.(*ssa.Global); ok && g.Pkg != nil && g.Pkg.Pkg.Path() == pkgKeystore {
			if sl, isS := g.Type().(*types.Pointer).Elem().Underlying().(*types.Slice); isS {
				if b, isB := sl.Elem().Underlying().(*types.Basic); isB && b.Kind() == types.Byte {
					set[g.Name()] = true
				}
			}
			if b, isB := g.Type().(*types.Pointer).Elem().Underlying().(*types.Basic); isB && b.Kind() == types.String {
				set[g.Name()] = true
			}
		}
	}
	if k, ok := strip(v).(*ssa.Const); ok && k.Value != nil {
		set[k.Value.ExactString()] = true
	}
	var out []string
	for k := range set {
		out = append(out, k)
	}
	sort.Strings(out)
	if len(out) == 0 {
		return []string{"<dyn>"}
	}
	return out
}

// guardedPutKeys: the keys fn (and its callees in the package) may Put/Delete, given which of its
// parameters are known to be nil at the call site: a Put dominated by the non-nil edge of a test of
// such a parameter is not executed (putMasterKeyParams(b, nil, priv) writes only mpriv).
func guardedPutKeys(c *Ctx, fn *ssa.Function, nilParams map[int]bool, methods map[string]bool, depth int, out map[string]bool) {
	if fn == nil || len(fn.Blocks) == 0 || depth > 8 {
		return
	}
	dead := func(in ssa.Instruction) bool {
		for i, p := range fn.Params {
			if !nilParams[i] {
				continue
			}
			for _, t := range nilTestsOf(fn, p) {
				if t.NonNil != t.NilSucc && len(t.NonNil.Preds) == 1 && t.NonNil.Dominates(in.Block()) {
					return true
				}
			}
		}
		return false
	}
	for _, g := range withClosures(fn) {
		allInstrs(g, func(in ssa.Instruction) {
			if g == fn && dead(in) {
				return
			}
			if cl, m, ok := bucketInvoke(in); ok && methods[m] {
				if len(cl.Call.Args) == 0 {
					out["<all>@"+outermost(g).Name()] = true
					return
				}
				for _, k := range keyNamesOf(cl.Call.Args[0]) {
					if k == "<dyn>" {
						k = "<dyn>@" + outermost(g).Name()
					}
					out[k] = true
				}
				return
			}
			// a method value handed on as a transaction body (`db.Update(db, op.run)`): the method is the body
			if mc, isMC := in.(*ssa.MakeClosure); isMC {
				if m := boundMethodTarget(mc); m != nil && pkgOf(m) == pkgKeystore {
					guardedPutKeys(c, m, nil, methods, depth+1, out)
				}
				return
			}
			cl, ok := in.(*ssa.Call)
			if !ok {
				return
			}
			var callees []*ssa.Function
			if f := cl.Call.StaticCallee(); f != nil {
				callees = []*ssa.Function{f}
			} else if cl.Call.IsInvoke() {
				callees = c.implementations(cl)
			}
			for _, f := range callees {
				if pkgOf(f) != pkgKeystore {
					continue
				}
				np := map[int]bool{}
				for i, a := range cl.Call.Args {
					if isNilConst(strip(a)) {
						np[i] = true
					}
					if p, isP := a.(*ssa.Parameter); isP && g == fn {
						for j, q := range fn.Params {
							if q == p && nilParams[j] {
								np[i] = true
							}
						}
					}
				}
				guardedPutKeys(c, f, np, methods, depth+1, out)
			}
		})
	}
}

var bucketReadMethods = map[string]bool{"Get": true, "GetByPrefix": true}
var bucketPutMethods = map[string]bool{"Put": true}
var bucketDelMethods = map[string]bool{"Delete": true, "Clear": true, "DeleteBucket": true}

func bucketInvoke(in ssa.Instruction) (*ssa.Call, string, bool) {
	cl, ok := in.(*ssa.Call)
	if !ok || !cl.Call.IsInvoke() {
		return nil, "", false
	}
	n, isN := cl.Call.Value.Type().(*types.Named)
	if !isN || n.Obj().Pkg() == nil || n.Obj().Pkg().Path() != pkgDB {
		return nil, "", false
	}
	return cl, cl.Call.Method.Name(), true
}

type keySummary struct {
	direct map[*ssa.Function]map[string]bool // keys read / written directly, "<dyn>@fn" for computed keys
	trans  map[*ssa.Function]map[string]bool
}

func summariseKeys(c *Ctx, methods map[string]bool) *keySummary {
	ks := &keySummary{direct: map[*ssa.Function]map[string]bool{}, trans: map[*ssa.Function]map[string]bool{}}
	var fns []*ssa.Function
	for fn := range c.AllFuncs {
		if pkgOf(fn) != pkgKeystore || len(fn.Blocks) == 0 {
			continue
		}
		fns = append(fns, fn)
		d := map[string]bool{}
		allInstrsShallow(fn, func(in ssa.Instruction) {
			cl, m, ok := bucketInvoke(in)
			if !ok || !methods[m] {
				return
			}
			if len(cl.Call.Args) == 0 {
				d["<all>@"+outermost(fn).Name()] = true
				return
			}
			for _, k := range keyNamesOf(cl.Call.Args[0]) {
				if k == "<dyn>" {
					k = "<dyn>@" + outermost(fn).Name()
				}
				d[k] = true
			}
		})
		ks.direct[fn] = d
	}
	// transitive closure over static calls and closures inside the package
	for _, fn := range fns {
		seen := map[*ssa.Function]bool{}
		acc := map[string]bool{}
		var rec func(f *ssa.Function)
		rec = func(f *ssa.Function) {
			if seen[f] {
				return
			}
			seen[f] = true
			for k := range ks.direct[f] {
				acc[k] = true
			}
			for _, e := range c.Callees(f) {
				if e.Callee != nil && pkgOf(e.Callee) == pkgKeystore {
					rec(e.Callee)
				}
			}
		}
		rec(fn)
		ks.trans[fn] = acc
	}
	return ks
}

func sortedKeys(m map[string]bool) []string {
	var out []string
	for k := range m {
		out = append(out, k)
	}
	sort.Strings(out)
	return out
}

// deepSlice: backSlice(v) extended with what was written into the local objects it points to
// through calls taking their address (x.Unmarshal(params), k.CopyBytes(b), copy(dst, src)).
func deepSlice(fn *ssa.Function, v ssa.Value) *slice {
	s := backSlice(v)
	for round := 0; round < 4; round++ {
		grew := false
		var cells []ssa.Value
		for x := range s.vals {
			switch y := x.(type) {
			case *ssa.Alloc:
				cells = append(cells, y)
			case *ssa.Call, *ssa.MakeSlice, *ssa.FieldAddr:
				if _, isP := x.Type().Underlying().(*types.Pointer); isP {
					cells = append(cells, x)
				} else if _, isS := x.Type().Underlying().(*types.Slice); isS {
					cells = append(cells, x)
				}
			}
		}
		for _, cell := range cells {
			refs := cell.Referrers()
			if refs == nil {
				continue
			}
			for _, r := range *refs {
				cl, ok := r.(*ssa.Call)
				if !ok {
					continue
				}
				args := cl.Call.Args
				if cl.Call.IsInvoke() {
					args = append([]ssa.Value{cl.Call.Value}, args...)
				}
				if len(args) == 0 || args[0] != cell {
					continue
				}
				for _, a := range args[1:] {
					for y := range backSlice(a).vals {
						if !s.vals[y] {
							s.vals[y] = true
							grew = true
						}
					}
				}
			}
		}
		if !grew {
			break
		}
	}
	return s
}

func checkC02(c *Ctx) Meta {
	c.Rule("C02-ERR", "no storage read error is swallowed on the way to the in-memory image: in every keystore function each error returned by a bucket read (or by a keystore read helper) is tested and returned as a non-nil error, or the nil value it comes with is turned into an error", 40)
	c.Rule("C02-KEYS", "writer and reader agree on the durable layout: every key some operation writes is read back by the loader (or by export), every key the loader requires is written when a keystore is created or imported, and the computed-key pairs (account row, public-key entries, account ids) have their reader", 12)
	c.Rule("C02-PROV", "the loader installs what it read: each durable-image field of the AddrManager returned by loadAddrManager derives from the read of its own key (remark←remark, masterKeyPub←mpub, masterKeyPriv←mpriv, cryptoKeyPub←cpub, cryptoKeyPrivEncrypted←cpriv, counters and branch keys from their own branch, addresses from the public-key bucket)", 10)
	c.Rule("C02-PAIR", "memory and store change together: for every mutating operation, a durable key written in its transaction has its in-memory field refreshed in the same operation and vice versa", 12)
	c.Rule("C02-TXRUN", "what is acknowledged was committed: db.Update/db.View return the error of BeginTx, of the body and of Commit on every path, and db.Update reports success only after tx.Commit (premise of: the reopened image equals the acknowledged one)", 5)
	checkTxRunner(c, "C02-TXRUN")
	c.Rule("C02-OPEN", "opening loads every keystore listed in the account-id bucket, fails as a whole when one fails, and the public passphrase is verified (DeriveKey on the stored parameters) before anything is decrypted or returned", 4)

	c.Rule("C02-STORE", "deleting a keystore bucket removes its nested buckets: nested buckets live under unrelated key prefixes (depth-prefixed paths), so (*LDBBucket).DeleteBucket must enumerate them through the bucket-name index (BucketNames) and delete each, recursively or in a loop", 1)
	c02Store(c)
	// the store layer's own key construction, prefix scans and read/write sibling agreement (the C19
	// rules) are premises of restart equivalence: run them here under C02's name
	c.pushAlias("C19-", "C02-LDB-")
	checkC19(c)
	// likewise the transaction discipline (C12: memory is refreshed only after the commit, one
	// transaction per operation, no swallowed error) and the lock discipline (C14: persist and publish
	// of one operation are one critical section) — without them the running image and the reopened one
	// diverge after a failed commit or under two concurrent operations
	c.popAlias()
	c.pushAlias("C12-", "C02-TX-")
	checkC12(c)
	c.popAlias()
	c.pushAlias("C14-", "C02-LOCK-")
	checkC14(c)
	c.popAlias()
	checkRemarkCleared(c, "C02-PAIR")
	c.Rule("C02-PUBLIVE", "the public hierarchy stays usable for the life of the keystore object: the fields the loader fills once and nothing re-derives (cryptoKeyPub, masterKeyPub, the account and branch public keys) are never zeroed — every address persisted afterwards would be sealed under an all-zero key and the store could not be reopened", 1)
	c02PubLive(c)
	// …and every later reload uses the current value: an operation that loads a keystore back after writing
	// it hands loadAddrManager the manager's pubPassphrase field as it is at that moment, not a copy some
	// other object took when it was built (a copy goes stale with the next ChangePubPassphrase: the keystore
	// is committed, the reload fails, and the store holds a keystore the running instance does not show)
	for _, name := range []string{"NewKeystore", "ImportKeystore"} {
		f := c.MustFn("C02-PAIR", "poc/wallet/keystore", "(*KeystoreManagerForPoC)."+name)
		if f == nil {
			continue
		}
		key := name + ":reloads-with-the-current-public-passphrase"
		n, bad := 0, ""
		for _, g := range bodyFns(f, exceptExported) {
			for _, cl := range callsInShallow(g, pkgKeystore+".loadAddrManager") {
				n++
				if !backSlice(cl.Call.Args[1]).hasField(tKMC, "pubPassphrase") {
					bad = c.Pos(cl.Pos())
				}
			}
		}
		switch {
		case n == 0:
			c.Bad("C02-PAIR", key, c.Pos(f.Pos()), "reason=anchor-missing: loadAddrManager call after the write")
		case bad != "":
			c.Bad("C02-PAIR", key, bad, "the keystore just written is loaded back with a public passphrase that is not read from the manager's pubPassphrase field (a copy taken earlier): after ChangePubPassphrase the copy is stale, the write is committed but the reload fails — the store holds a keystore the running instance does not show")
		default:
			c.OK("C02-PAIR", key, c.Pos(f.Pos()), "loadAddrManager(…, kmc.pubPassphrase, …)")
		}
	}
	// the memory side gets the NEW value
	if f := c.MustFn("C02-PAIR", "poc/wallet/keystore", "(*KeystoreManagerForPoC).ChangePubPassphrase"); f != nil {
		key := "ChangePubPassphrase:memory-gets-the-new-passphrase"
		ok, n := true, 0
		for _, a := range fieldAccesses(f) {
			if a.Kind == "store" && a.Type == tKMC && a.Field == "pubPassphrase" {
				n++
				sl := backSlice(a.In.(*ssa.Store).Val)
				if !sl.hasParam(f, "newPubPass") || sl.hasParam(f, "oldPubPass") {
					ok = false
				}
			}
			if a.Kind == "store" && a.Type == tAddrMgr && a.Field == "masterKeyPub" {
				n++
				good := false
				for x := range backSlice(a.In.(*ssa.Store).Val).vals {
					if cl, isC := x.(*ssa.Call); isC {
						if g, isG := unwrapGlobalLoad(cl.Call.Value); isG && g.Name() == "secretKeyGen" && len(cl.Call.Args) > 0 && cellHoldsParam(cl.Call.Args[0], f, "newPubPass") {
							good = true
						}
					}
				}
				if !good {
					ok = false
				}
			}
		}
		if ok && n >= 2 {
			c.OK("C02-PAIR", key, c.Pos(f.Pos()), "kmc.pubPassphrase ← newPubPass; masterKeyPub ← secretKeyGen(&newPubPass)")
		} else {
			c.Bad("C02-PAIR", key, c.Pos(f.Pos()), "after a public passphrase change the running instance keeps a value that is not the new passphrase (or a master key not derived from it): keystores created afterwards are sealed under it and the store cannot be reopened with the current passphrase")
		}
	}
	checkNoDeadShift(c, "C02-KEYS", []string{pkgKeystore, pkgLDB, pkgDB})
	checkKeyConstantsDistinct(c, "C02-KEYS")
	c02Errflow(c)
	c02Keys(c)
	c02Prov(c)
	c02Pair(c)
	c02Open(c)

	return Meta{
		Explanation: "Static necessary conditions of restart equivalence: (ERR) read errors cannot silently turn into a different image, (KEYS) the set of keys written equals the set read back, (PROV) each field of the reloaded AddrManager derives from the read of its own key with the right branch polarity, (PAIR) every operation that writes a durable key refreshes the paired memory field and vice versa, (OPEN) the open path loads every listed keystore behind the public-passphrase check.",
		NotDecided:  "field-by-field equality of the reopened image with the running one as values for all histories; leveldb durability; the content of encrypted blobs.",
		Trusted:     []string{"go/ssa", "goleveldb", "frozen field↔key pairing table (DESIGN §4 C02)"},
	}
}

// ---- ERR ----------------------------------------------------------------------------------

func c02Errflow(c *Ctx) {
	var scope []*ssa.Function
	for fn := range c.AllFuncs {
		if pkgOf(fn) == pkgKeystore && len(fn.Blocks) > 0 {
			scope = append(scope, fn)
		}
	}
	sort.Slice(scope, func(i, j int) bool { return FuncName(scope[i]) < FuncName(scope[j]) })
	isReadHelper := func(f *ssa.Function) bool {
		if f == nil || pkgOf(f) != pkgKeystore {
			return false
		}
		n := f.Name()
		return strings.HasPrefix(n, "fetch") || strings.HasPrefix(n, "get") || n == "loadAddrManager" || n == "export" || strings.HasPrefix(n, "deserialize")
	}
	vc := map[string]bool{}
	runErrflow(c, errflowCfg{
		rule:  "C02-ERR",
		scope: scope,
		classK: func(fn *ssa.Function, call *ssa.Call) bool {
			if cl, m, ok := bucketInvoke(call); ok && bucketReadMethods[m] {
				vc[calleeID(cl)] = true
				return true
			}
			return isReadHelper(call.Call.StaticCallee())
		},
		strict:          func(fn *ssa.Function, call *ssa.Call) bool { return true },
		valueConversion: vc,
	})
}

// ---- KEYS ---------------------------------------------------------------------------------

func c02Keys(c *Ctx) {
	rule := "C02-KEYS"
	reads := summariseKeys(c, bucketReadMethods)
	puts := summariseKeys(c, bucketPutMethods)
	loader := c.MustFn(rule, "poc/wallet/keystore", "loadAddrManager")
	exp := c.Fn("poc/wallet/keystore", "export")
	create := c.MustFn(rule, "poc/wallet/keystore", "create")
	alloc := c.MustFn(rule, "poc/wallet/keystore", "(*KeystoreManagerForPoC).allocAddrMgrNamespace")
	open := c.MustFn(rule, "poc/wallet/keystore", "NewKeystoreManagerForPoC")
	if loader == nil || create == nil || alloc == nil || open == nil {
		return
	}
	loaded := map[string]bool{}
	for k := range reads.trans[loader] {
		loaded[k] = true
	}
	for _, g := range withClosures(open) {
		for k := range reads.trans[g] {
			loaded[k] = true
		}
	}
	exported := map[string]bool{}
	if exp != nil {
		exported = reads.trans[exp]
	}
	// all keys any function writes
	written := map[string]string{}
	for fn, d := range puts.direct {
		for k := range d {
			written[k] = FuncName(fn)
		}
	}
	// frozen pairs for computed keys: writer function -> reader function
	dynReader := map[string]string{"<dyn>@putAccountRow": "<dyn>@fetchAccountInfo", "<dyn>@putAccountInfo": "<dyn>@fetchAccountInfo", /* putAccountRow inlined into its only caller */ "<dyn>@putEncryptedPubKey": "<all>@fetchEncryptedPubKey", "<dyn>@putAccountID": "<all>@fetchAccountID"}
	for _, k := range sortedKeys(func() map[string]bool {
		m := map[string]bool{}
		for k := range written {
			m[k] = true
		}
		return m
	}()) {
		key := "written-key-is-read-back:" + k
		rk := k
		if strings.HasPrefix(k, "<") {
			r, ok := dynReader[k]
			if !ok {
				c.Bad(rule, key, "", "a computed key is written by "+written[k]+" and the table of computed-key readers has no entry for it")
				continue
			}
			rk = r
			// GetByPrefix([]byte{}) has a computed (empty) prefix: recorded as <dyn>@reader
			alt := strings.Replace(r, "<all>@", "<dyn>@", 1)
			if loaded[alt] {
				rk = alt
			}
		}
		switch {
		case loaded[rk]:
			c.OK(rule, key, "", "written by "+shortID(written[k])+", read by the open/load path")
		case exported[rk]:
			c.OK(rule, key, "", "written by "+shortID(written[k])+", read by export only (not part of the running image)")
		case k == "masterHDPubName":
			c.OK(rule, key, "", "written at creation, read by fetchMasterHDKeys only for its unused second result (documented unused)")
		default:
			c.Bad(rule, key, "", "written by "+written[k]+" but never read by loadAddrManager/open/export: the value is lost on restart")
		}
	}
	// keys the loader requires are written at creation and at import
	for _, k := range sortedKeys(reads.trans[loader]) {
		if strings.HasPrefix(k, "<") {
			continue
		}
		for _, w := range []*ssa.Function{create, alloc} {
			key := "loaded-key-is-created:" + k + ":" + w.Name()
			if puts.trans[w][k] {
				c.OK(rule, key, "", "put by "+w.Name())
			} else if k == "remarkName" {
				c.OK(rule, key, "", "optional key (absent remark reads as empty)")
			} else {
				c.Bad(rule, key, c.Pos(w.Pos()), "loadAddrManager reads "+k+" but "+w.Name()+" does not write it: a keystore created this way cannot be reopened")
			}
		}
	}
}

// ---- PROV ---------------------------------------------------------------------------------

func c02Prov(c *Ctx) {
	rule := "C02-PROV"
	loader := c.MustFn(rule, "poc/wallet/keystore", "loadAddrManager")
	if loader == nil {
		return
	}
	reads := summariseKeys(c, bucketReadMethods)
	// keys read that flow into value v: calls to read helpers in the deep slice, with per-result
	// refinement for helpers returning several values
	resKeys := func(f *ssa.Function, idx int) map[string]bool {
		out := map[string]bool{}
		for _, ret := range returnsOf(f) {
			if idx >= len(ret.Results) {
				continue
			}
			for x := range backSlice(ret.Results[idx]).vals {
				if cl, m, ok := bucketInvoke(instrOf(x)); ok && bucketReadMethods[m] && len(cl.Call.Args) > 0 {
					for _, k := range keyNamesOf(cl.Call.Args[0]) {
						out[k] = true
					}
				}
			}
		}
		return out
	}
	keysInto := func(v ssa.Value) map[string]bool {
		out := map[string]bool{}
		for x := range deepSlice(loader, v).vals {
			switch y := x.(type) {
			case *ssa.Extract:
				if cl, ok := y.Tuple.(*ssa.Call); ok {
					if f := cl.Call.StaticCallee(); f != nil && pkgOf(f) == pkgKeystore {
						for k := range resKeys(f, y.Index) {
							out[k] = true
						}
					}
				}
			case *ssa.Call:
				if f := y.Call.StaticCallee(); f != nil && pkgOf(f) == pkgKeystore && f.Signature.Results().Len() <= 2 {
					for k := range reads.trans[f] {
						out[k] = true
					}
				}
				if cl, m, ok := bucketInvoke(y); ok && m == "Bucket" && len(cl.Call.Args) > 0 {
					for _, k := range keyNamesOf(cl.Call.Args[0]) {
						out["bucket:"+k] = true
					}
				}
			}
		}
		return out
	}
	type want struct {
		typ, field string
		must       []string
		mustNot    []string
	}
	table := []want{
		{tAddrMgr, "remark", []string{"remarkName"}, nil},
		{tAddrMgr, "masterKeyPub", []string{"masterPubKeyName"}, []string{"masterPrivKeyName"}},
		{tAddrMgr, "masterKeyPriv", []string{"masterPrivKeyName"}, []string{"masterPubKeyName"}},
		{tAddrMgr, "cryptoKeyPub", []string{"cryptoPubKeyName", "masterPubKeyName"}, []string{"cryptoPrivKeyName"}},
		{tAddrMgr, "cryptoKeyPrivEncrypted", []string{"cryptoPrivKeyName"}, []string{"cryptoPubKeyName"}},
		{tAddrMgr, "addrs", []string{"bucket:\"pub\""}, nil},
		{tBranchInfo, "nextExternalIndex", []string{"externalChildNumName"}, []string{"internalChildNumName"}},
		{tBranchInfo, "nextInternalIndex", []string{"internalChildNumName"}, []string{"externalChildNumName"}},
		{tBranchInfo, "externalBranchPub", []string{"externalBranchPubKeyName"}, []string{"internalBranchPubKeyName"}},
		{tBranchInfo, "internalBranchPub", []string{"internalBranchPubKeyName"}, []string{"externalBranchPubKeyName"}},
		{pkgKeystore + ".accountInfo", "acctKeyPub", []string{"<dyn>"}, nil},
		{pkgKeystore + ".accountInfo", "acctKeyEncrypted", []string{"<dyn>"}, nil},
	}
	stores := map[string][]fieldAccess{}
	for _, a := range fieldAccesses(loader) {
		if a.Kind == "store" {
			stores[a.Type+"."+a.Field] = append(stores[a.Type+"."+a.Field], a)
		}
	}
	for _, w := range table {
		key := "loadAddrManager:" + shortType(w.typ) + "." + w.field
		ss := stores[w.typ+"."+w.field]
		if len(ss) == 0 {
			c.Bad(rule, key, c.Pos(loader.Pos()), "the loader does not set this field: after a restart it is empty whatever the store holds")
			continue
		}
		for _, a := range ss {
			ks := keysInto(a.In.(*ssa.Store).Val)
			var missing, crossed []string
			for _, m := range w.must {
				if !ks[m] {
					missing = append(missing, m)
				}
			}
			for _, m := range w.mustNot {
				if ks[m] {
					crossed = append(crossed, m)
				}
			}
			switch {
			case len(missing) > 0:
				c.Bad(rule, key, c.Pos(a.In.Pos()), fmt.Sprintf("the value installed does not derive from the read of %v (derives from %v): the reloaded field differs from what the running instance persisted", missing, sortedKeys(ks)))
			case len(crossed) > 0:
				c.Bad(rule, key, c.Pos(a.In.Pos()), fmt.Sprintf("the value installed derives from %v, the key of its sibling", crossed))
			default:
				c.OK(rule, key, c.Pos(a.In.Pos()), fmt.Sprintf("← %v", w.must))
			}
		}
	}
	// the address entries: path (branch, index) and key of one entry come from the same stored entry
	okPath := false
	for _, a := range fieldAccesses(loader) {
		if a.Kind == "store" && a.Type == pkgKeystore+".DerivationPath" && (a.Field == "Branch" || a.Field == "Index") {
			v := a.In.(*ssa.Store).Val
			if typ, f, _, ok := fieldOfValue(v); ok && strings.HasSuffix(typ, ".pubkeyAndPath") && strings.EqualFold(f, a.Field) {
				okPath = true
			} else {
				c.Bad(rule, "loadAddrManager:address-path:"+a.Field, c.Pos(a.In.Pos()), "the derivation path of a reloaded address does not take its "+a.Field+" from the stored entry's "+strings.ToLower(a.Field))
				okPath = false
				break
			}
		}
	}
	if okPath {
		c.OK(rule, "loadAddrManager:address-path", c.Pos(loader.Pos()), "Branch ← entry.branch, Index ← entry.index")
	}
}

func instrOf(v ssa.Value) ssa.Instruction {
	if in, ok := v.(ssa.Instruction); ok {
		return in
	}
	return nil
}

// ---- PAIR ---------------------------------------------------------------------------------

func c02Pair(c *Ctx) {
	rule := "C02-PAIR"
	type pair struct {
		field string // type.field
		kind  string // store | mapupdate | mapdelete | copyinto
		keys  []string
		del   bool
	}
	table := []pair{
		{tAddrMgr + ".remark", "store", []string{"remarkName"}, false},
		{tBranchInfo + ".nextExternalIndex", "store", []string{"externalChildNumName"}, false},
		{tBranchInfo + ".nextInternalIndex", "store", []string{"internalChildNumName"}, false},
		{tAddrMgr + ".masterKeyPub", "store", []string{"masterPubKeyName", "cryptoPubKeyName"}, false},
		{tAddrMgr + ".masterKeyPriv", "store", []string{"masterPrivKeyName"}, false},
		{tAddrMgr + ".cryptoKeyPrivEncrypted", "copyinto", []string{"cryptoPrivKeyName"}, false},
		{tAddrMgr + ".addrs", "mapupdate", []string{"<dyn>@putEncryptedPubKey"}, false},
		{tKMC + ".managedKeystores", "mapupdate", []string{"<dyn>@putAccountID"}, false},
		{tKMC + ".managedKeystores", "mapdelete", []string{"<dyn>@deleteAccountID"}, true},
		{tKMC + ".pubPassphrase", "store", []string{"masterPubKeyName", "cryptoPubKeyName"}, false},
	}
	// reachWrites: some function reachable from f (inside the package) writes field/kind on a shared object
	reachWrites := func(f *ssa.Function, field, kind string) bool {
		if f == nil {
			return false
		}
		seen := c.Reachable([]*ssa.Function{f}, func(from *ssa.Function, e callEdge) bool {
			return e.Callee != nil && pkgOf(e.Callee) == pkgKeystore
		})
		for g := range seen {
			for _, a := range fieldAccesses(g) {
				if a.Write && !isFreshObject(a.Base) && a.Type+"."+a.Field == field && a.Kind == kind {
					return true
				}
			}
		}
		return false
	}
	ops := exportedFuncs(c, pkgKeystore)
	sort.Slice(ops, func(i, j int) bool { return FuncName(ops[i]) < FuncName(ops[j]) })
	for _, op := range ops {
		if op.Signature.Recv() == nil || !strings.HasSuffix(op.Signature.Recv().Type().String(), "KeystoreManagerForPoC") {
			continue
		}
		hasWrite := false
		for _, s := range txSitesBody(op) {
			if s.Write {
				hasWrite = true
			}
		}
		if !hasWrite {
			continue
		}
		// functions reachable from op within the package
		seen := c.Reachable([]*ssa.Function{op}, func(from *ssa.Function, e callEdge) bool {
			return e.Callee != nil && pkgOf(e.Callee) == pkgKeystore
		})
		kw, kd := map[string]bool{}, map[string]bool{}
		fw := map[string]bool{}
		guardedPutKeys(c, op, nil, bucketPutMethods, 0, kw)
		guardedPutKeys(c, op, nil, bucketDelMethods, 0, kd)
		undo := map[string]bool{}
		for f := range seen {
			for _, a := range fieldAccesses(f) {
				if !a.Write || isFreshObject(a.Base) {
					continue
				}
				// `delete(m, k)` on the error path right after the operation's own `m[k] = v`: the undo of an
				// insertion, not a deletion of durable state
				if a.Kind == "mapdelete" {
					isUndo := false
					for _, b := range fieldAccesses(f) {
						if b.Kind == "mapupdate" && b.Type == a.Type && b.Field == a.Field && instrDominates(b.In, a.In) &&
							sameOriginValue(f, b.In.(*ssa.MapUpdate).Key, a.In.(ssa.CallInstruction).Common().Args[1]) {
							isUndo = true
						}
					}
					if isUndo {
						undo[a.Type+"."+a.Field] = true
						continue
					}
				}
				fw[a.Type+"."+a.Field+"/"+a.Kind] = true
			}
		}
		for _, p := range table {
			keyWritten := false
			for _, k := range p.keys {
				if (!p.del && kw[k]) || (p.del && kd[k]) {
					keyWritten = true
				}
			}
			fieldWritten := fw[p.field+"/"+p.kind]
			// a whole fresh keystore (create/import) is paired through loadAddrManager + insertion
			fresh := false
			for f := range seen {
				if f.Name() == "loadAddrManager" {
					fresh = true
				}
			}
			if fresh && p.field != tKMC+".managedKeystores" {
				continue
			}
			if !keyWritten && !fieldWritten {
				continue
			}
			key := op.Name() + ":" + shortType(p.field) + "↔" + strings.Join(p.keys, "+")
			switch {
			case keyWritten && fieldWritten:
				// every successful return has refreshed the field (for per-keystore fields: unless there is
				// no keystore to refresh)
				var pass []ssa.Instruction
				allInstrs(op, func(in ssa.Instruction) {
					for _, a := range fieldAccesses(op) {
						if a.In == in && a.Write && !isFreshObject(a.Base) && a.Type+"."+a.Field == p.field && a.Kind == p.kind {
							pass = append(pass, in)
						}
					}
					if cl, ok := in.(*ssa.Call); ok {
						if f := cl.Call.StaticCallee(); f != nil && pkgOf(f) == pkgKeystore && reachWrites(f, p.field, p.kind) {
							pass = append(pass, in)
						}
						for _, a := range cl.Call.Args {
							if mc, isMC := a.(*ssa.MakeClosure); isMC && reachWrites(mc.Fn.(*ssa.Function), p.field, p.kind) {
								pass = append(pass, in)
							}
						}
					}
				})
				perKeystore := !strings.HasPrefix(p.field, tKMC+".")
				cut := func(from, to *ssa.BasicBlock) bool {
					if !perKeystore {
						return false
					}
					// the "no (more) keystores" edge of a range over managedKeystores
					iff, ok := from.Instrs[len(from.Instrs)-1].(*ssa.If)
					if !ok || len(from.Succs) != 2 || to != from.Succs[1] {
						return false
					}
					if ex, isE := iff.Cond.(*ssa.Extract); isE && ex.Index == 0 {
						if nx, isN := ex.Tuple.(*ssa.Next); isN {
							if rg, isR := nx.Iter.(*ssa.Range); isR && backSlice(rg.X).hasField(tKMC, "managedKeystores") {
								return true
							}
						}
					}
					return false
				}
				isPass := map[ssa.Instruction]bool{}
				for _, in := range pass {
					isPass[in] = true
				}
				r := reach(op, op.Blocks[0].Instrs[0], cut, func(in ssa.Instruction) bool { return isPass[in] })
				var skipped *ssa.Return
				for _, ret := range returnsOf(op) {
					if isNilErrorReturn(ret) && r(ret) {
						skipped = ret
					}
				}
				if len(pass) == 0 {
					c.Unk(rule, key, c.Pos(op.Pos()), "the memory refresh could not be located in the operation itself")
				} else if skipped != nil {
					c.Bad(rule, key, c.Pos(skipped.Pos()), fmt.Sprintf("%s can report success without having refreshed %s: the running instance and the store disagree from then on", op.Name(), shortType(p.field)))
				} else {
					c.OK(rule, key, c.Pos(op.Pos()), "the operation writes both the durable key and the memory field; every successful return has passed the refresh")
				}
			case keyWritten:
				c.Bad(rule, key, c.Pos(op.Pos()), fmt.Sprintf("%s writes %v to the store but never refreshes %s: the running instance keeps the old value until the next restart", op.Name(), p.keys, shortType(p.field)))
			default:
				c.Bad(rule, key, c.Pos(op.Pos()), fmt.Sprintf("%s changes %s in memory but does not write %v: the change is lost on restart", op.Name(), shortType(p.field), p.keys))
			}
		}
	}
}

// ---- OPEN ---------------------------------------------------------------------------------

func c02Open(c *Ctx) {
	rule := "C02-OPEN"
	loader := c.MustFn(rule, "poc/wallet/keystore", "loadAddrManager")
	open := c.MustFn(rule, "poc/wallet/keystore", "NewKeystoreManagerForPoC")
	if loader == nil || open == nil {
		return
	}
	// public passphrase gate in the loader
	var derive *ssa.Call
	for _, cl := range callsIn(loader, "(*"+pkgKeystore+"/snacl.SecretKey).DeriveKey") {
		if cellHoldsParam(cl.Call.Args[1], loader, "pubPassphrase") {
			derive = cl
		}
	}
	if derive == nil {
		c.Bad(rule, "loadAddrManager:public-passphrase-verified", c.Pos(loader.Pos()), "the public passphrase is never verified against the stored parameters")
	} else {
		var succ []ssa.Instruction
		for _, r := range returnsOf(loader) {
			if !isNilConst(strip(r.Results[0])) {
				succ = append(succ, r)
			}
		}
		for _, cl := range callsIn(loader, "(*"+pkgKeystore+"/snacl.SecretKey).Decrypt") {
			succ = append(succ, cl)
		}
		if ok, at := unreachableWhenCut(loader, errorEdgeCut(loader, derive, false), succ); ok && len(succ) > 1 {
			c.OK(rule, "loadAddrManager:public-passphrase-verified", c.Pos(derive.Pos()), "decryption and the success return only behind DeriveKey(&pubPassphrase) success")
		} else {
			p := c.Pos(derive.Pos())
			if at != nil {
				p = c.Pos(at.Pos())
			}
			c.Bad(rule, "loadAddrManager:public-passphrase-verified", p, "a keystore is decrypted or returned although the public passphrase was not accepted")
		}
		// the parameters verified are the stored public ones
		if !deepSlice(loader, derive.Call.Args[0]).hasCallTo(pkgKeystore + ".fetchMasterKeyParams") {
			c.Bad(rule, "loadAddrManager:public-passphrase-verified", c.Pos(derive.Pos()), "the passphrase is not verified against the stored master-key parameters")
		}
	}
	// open: enumerate ids, load each, insert, fail as a whole
	var cl0 *ssa.Function
	for _, s := range txSitesBody(open) {
		if s.Closure != nil {
			cl0 = s.Closure
		}
	}
	if cl0 == nil {
		c.Bad(rule, "open:anchor", c.Pos(open.Pos()), "reason=anchor-missing: transaction closure of NewKeystoreManagerForPoC")
		return
	}
	loads := callsIn(cl0, pkgKeystore+".loadAddrManager")
	ids := callsIn(cl0, pkgKeystore+".fetchAccountID")
	if len(loads) != 1 || len(ids) != 1 {
		c.Bad(rule, "open:anchor", c.Pos(cl0.Pos()), "reason=anchor-missing: fetchAccountID / loadAddrManager in the opening closure")
		return
	}
	ld := loads[0]
	// the element of the id list this iteration works on
	var elems []ssa.Value
	for x := range backSlice(ld.Call.Args[0]).vals {
		if ia, ok := x.(*ssa.IndexAddr); ok && backSlice(ia.X).has(resultOf(ids[0], 0)) {
			elems = append(elems, ia)
		}
	}
	okRange := len(elems) > 0
	// the bucket loaded is the bucket named by the id of this iteration; the map key is that id
	sameID := false
	var ins *ssa.MapUpdate
	allInstrs(cl0, func(in ssa.Instruction) {
		if mu, ok := in.(*ssa.MapUpdate); ok && backSlice(mu.Value).has(resultOf(ld, 0)) {
			ins = mu
		}
	})
	if ins != nil {
		ks := backSlice(ins.Key)
		for _, e := range elems {
			if ks.has(e) {
				sameID = true
			}
		}
	}
	if okRange && blockReentered(cl0, ld) && ins != nil && sameID {
		c.OK(rule, "open:every-listed-keystore-loaded", c.Pos(ld.Pos()), "range over fetchAccountID: loadAddrManager(bucket(id)) stored under managed[id]")
	} else {
		c.Bad(rule, "open:every-listed-keystore-loaded", c.Pos(ld.Pos()), fmt.Sprintf("the open path does not load every listed keystore under its own id (range=%v in-loop=%v inserted=%v same-id=%v)", okRange, blockReentered(cl0, ld), ins != nil, sameID))
	}
	// a failed load fails the open: on the error edge no nil return of the closure, and the manager is
	// returned only behind the Update success edge
	r := reach(cl0, ld, errorEdgeCut(cl0, ld, false), nil)
	bad := false
	for _, ret := range returnsOf(cl0) {
		if r(ret) && isNilConst(strip(ret.Results[0])) {
			bad = true
		}
	}
	if ins != nil && r(ins) {
		bad = true
	}
	if bad {
		c.Bad(rule, "open:load-failure-fails-open", c.Pos(ld.Pos()), "a keystore that fails to load is skipped (or inserted) and the wallet opens without it: acknowledged state disappears silently")
	} else {
		c.OK(rule, "open:load-failure-fails-open", c.Pos(ld.Pos()), "the closure returns the error; nothing is inserted on the error edge")
	}
	// the manager's map is the map filled by the closure and the passphrase kept is the one verified
	okMap, okPass := false, false
	for _, a := range fieldAccesses(open) {
		if a.Kind != "store" || a.Type != tKMC {
			continue
		}
		v := a.In.(*ssa.Store).Val
		if a.Field == "managedKeystores" && ins != nil && sameOriginValue(open, v, ins.Map) {
			okMap = true
		}
		if a.Field == "managedKeystores" && ins != nil && !okMap {
			// the closure updates the captured variable; compare cells
			if u, ok := ins.Map.(*ssa.UnOp); ok {
				if u2, ok2 := v.(*ssa.UnOp); ok2 && rootCell(u.X) == rootCell(u2.X) && rootCell(u.X) != nil {
					okMap = true
				}
			}
		}
		if a.Field == "pubPassphrase" && backSlice(v).hasParam(open, "pubPassphrase") {
			okPass = true
		}
	}
	if okMap && okPass {
		c.OK(rule, "open:manager-built-from-loaded-state", c.Pos(open.Pos()), "managedKeystores is the map filled by the closure; pubPassphrase is the verified argument")
	} else {
		c.Bad(rule, "open:manager-built-from-loaded-state", c.Pos(open.Pos()), fmt.Sprintf("the returned manager is not built from the loaded state (map=%v passphrase=%v)", okMap, okPass))
	}
}

// ---- STORE --------------------------------------------------------------------------------

func c02Store(c *Ctx) {
	rule := "C02-STORE"
	del := c.MustFn(rule, "poc/wallet/db/ldb", "(*LDBBucket).DeleteBucket")
	if del == nil {
		return
	}
	seen := c.Reachable([]*ssa.Function{del}, func(from *ssa.Function, e callEdge) bool {
		return e.Callee != nil && pkgOf(e.Callee) == pkgLDB && (e.Kind == "static" || e.Kind == "closure-made" || e.Kind == "closure-call")
	})
	okEnum := false
	where := ""
	for f := range seen {
		for _, bn := range callsIn(f, "(*"+pkgLDB+".LDBBucket).BucketNames") {
			names := resultOf(bn, 0)
			// a call inside a loop whose argument derives from one of the names and which deletes
			allInstrs(f, func(in ssa.Instruction) {
				cl, ok := in.(*ssa.Call)
				if !ok || !blockReentered(f, cl) {
					return
				}
				g := cl.Call.StaticCallee()
				if g == nil || pkgOf(g) != pkgLDB {
					return
				}
				derives := false
				for _, a := range cl.Call.Args {
					if backSlice(a).has(names) {
						derives = true
					}
				}
				if !derives {
					return
				}
				// g (transitively) deletes keys or is the enumerating function itself (recursion)
				sub := c.Reachable([]*ssa.Function{g}, func(from *ssa.Function, e callEdge) bool {
					return e.Callee != nil && pkgOf(e.Callee) == pkgLDB
				})
				if sub[f] != nil || g == f {
					okEnum = true
					where = c.Pos(cl.Pos())
				}
			})
		}
	}
	if okEnum {
		c.OK(rule, "(*LDBBucket).DeleteBucket:nested-buckets-enumerated", where, "BucketNames() of the bucket being deleted feeds a per-name recursive deletion")
	} else {
		c.Bad(rule, "(*LDBBucket).DeleteBucket:nested-buckets-enumerated", c.Pos(del.Pos()), "DeleteBucket no longer enumerates the nested buckets of the bucket it deletes: the `pub` sub-bucket of a deleted keystore survives and is adopted by a keystore re-created from the same seed (after which the store cannot be reopened)")
	}
}

// ---- PUBLIVE ------------------------------------------------------------------------------

func c02PubLive(c *Ctx) {
	rule := "C02-PUBLIVE"
	pub := map[string]bool{"cryptoKeyPub": true, "masterKeyPub": true, "acctKeyPub": true, "internalBranchPub": true, "externalBranchPub": true}
	// writers other than the loader / constructors / the passphrase change (which installs a new object)
	refill := map[string][]string{}
	var bad []string
	n := 0
	for fn := range c.AllFuncs {
		if pkgOf(fn) != pkgKeystore {
			continue
		}
		for _, a := range fieldAccessesShallow(fn) {
			if !pub[a.Field] || !strings.HasPrefix(a.Type, pkgKeystore+".") {
				continue
			}
			if a.Kind == "store" {
				refill[a.Field] = append(refill[a.Field], outermost(fn).Name())
			}
			if a.Kind != "load" {
				continue
			}
			n++
			v := a.In.(ssa.Value)
			for al := range aliasesForward(fn, v) {
				refs := al.Referrers()
				if refs == nil {
					continue
				}
				for _, r := range *refs {
					cl, ok := r.(ssa.CallInstruction)
					if !ok {
						continue
					}
					id := calleeID(r)
					if (callName(r) == "Zero" && callRecv(r) == al) || (strings.Contains(id, "/zero.") && len(cl.Common().Args) > 0 && cl.Common().Args[0] == al) {
						bad = append(bad, fmt.Sprintf("%s.%s zeroed in %s at %s", shortType(a.Type), a.Field, fn.Name(), c.Pos(r.Pos())))
					}
				}
			}
		}
	}
	sort.Strings(bad)
	if len(bad) > 0 {
		c.Bad(rule, "public-hierarchy-never-zeroed", "", strings.Join(bad, "; ")+": nothing re-derives it (it is filled only by the loader), so every key issued afterwards is persisted under an all-zero key and the wallet cannot be reopened")
	} else if n == 0 {
		c.Bad(rule, "public-hierarchy-never-zeroed", "", "reason=anchor-missing: no use of the public-hierarchy fields found")
	} else {
		c.OK(rule, "public-hierarchy-never-zeroed", "", fmt.Sprintf("%d loads of cryptoKeyPub/masterKeyPub/acctKeyPub/branch public keys, none flows into Zero()", n))
	}
}

// checkRemarkCleared: clearing a remark clears it in the store too: the transaction of ChangeRemark can
// delete the stored remark (a Delete of the remark key is reachable from it). A "store remark" helper
// shared with create/import that simply skips empty remarks leaves the old remark in the store: the
// running instance shows "" while export and the reopened wallet show the old text.
func checkRemarkCleared(c *Ctx, rule string) {
	op := c.MustFn(rule, "poc/wallet/keystore", "(*KeystoreManagerForPoC).ChangeRemark")
	if op == nil {
		return
	}
	key := "ChangeRemark:empty-remark-deletes-the-stored-one"
	kd := map[string]bool{}
	guardedPutKeys(c, op, nil, bucketDelMethods, 0, kd)
	kw := map[string]bool{}
	guardedPutKeys(c, op, nil, bucketPutMethods, 0, kw)
	switch {
	case !kw["remarkName"]:
		c.Bad(rule, key, c.Pos(op.Pos()), "reason=anchor-missing: ChangeRemark no longer writes the remark key")
	case !kd["remarkName"]:
		c.Bad(rule, key, c.Pos(op.Pos()), "ChangeRemark never deletes the stored remark: after the remark is cleared (empty string) the running instance shows no remark while the store — and so export and the reopened wallet — keep the old one")
	default:
		c.OK(rule, key, c.Pos(op.Pos()), "the transaction of ChangeRemark can both put and delete the remark key")
	}
}
