package main

// C01 — exported keystore restores the same wallet identity and keys (structure).

import (
	"fmt"
	"go/token"
	"go/types"
	"sort"
	"strings"

	"golang.org/x/tools/go/ssa"
)

func init() { register("C01", checkC01) }

var keystoreFileTypes = map[string]bool{pkgKeystore + ".Keystore": true, pkgKeystore + ".cryptoJSON": true, pkgKeystore + ".hdPath": true}

func checkC01(c *Ctx) Meta {
	c.Rule("C01-FIELDS", "export and import agree on the file: every field of the keystore file that import consumes is filled by export from the durable key it stands for (remark, master HD private key, private scrypt parameters, encrypted private crypto key, account, external and internal counters), and import stores it back under the same key", 10)
	c.Rule("C01-BRANCH", "the two branches never cross between export, file and import: counters keep their branch (shared polarity rule), and each re-derivation loop of import (bounded by one branch's counter) derives from that branch's key and records that branch in the derivation path, the persisted entry and the stored counter", 12)
	c.Rule("C01-AUTH", "a keystore file is stored only behind a successful decryption with the caller's old passphrase (scrypt digest check, then secretbox open of the crypto key and of the master HD key)", 3)
	c.Rule("C01-TAMPER", "every field of the file that import consumes is authenticated: it reaches the wallet only through unmarshalMasterPrivKey (digest check) or a secretbox Decrypt whose failure aborts the import", 6)
	c.Rule("C01-DUP", "a keystore already present is rejected before anything is written: the account id entry and the keystore bucket are created only behind the 'id not present' edge, the bucket with NewBucket (which fails if it exists)", 3)
	c.Rule("C01-DELETE", "delete removes what create made: DeleteKeystore returns success only after clearing the keystore bucket, deleting it from the manager bucket under its own name, and deleting its account id — all in its transaction", 3)

	c.Rule("C01-CHAIN", "what is stored decrypts with what is stored beside it: in create and in import the key that seals the master HD key is the very crypto key whose bytes are sealed into cpriv, the master key that seals those bytes is the one whose parameters are stored as mpriv, and the same crypto key is handed to createManagerKeyScope; the parsed master key keeps the decoded 32 bytes", 7)
	c01Chain(c)
	c.Rule("C01-LOCK", "export, import and delete run their store transactions under the manager lock, so an export is a consistent snapshot (no passphrase change commits between its reads) and import/delete see one keystore", 3)
	checkTxUnderManagerLock(c, "C01-LOCK", []string{"ExportKeystore", "ImportKeystore", "DeleteKeystore"})
	checkLoopAddrEscape(c, "C01-BRANCH", []*ssa.Function{c.Fn("poc/wallet/keystore", "createManagerKeyScope")})
	c01Fields(c)
	// what export reads is what the wallet shows: a cleared remark is cleared in the store as well
	// (otherwise the exported file, and so the restored wallet, carries a remark the wallet no longer has)
	checkRemarkCleared(c, "C01-FIELDS")
	c01Branch(c)
	c01Auth(c)
	c01Tamper(c)
	c01Dup(c)
	c01Delete(c)
	// premises shared with other properties, run here under C01's name (rule texts are theirs):
	// - transaction discipline (C12): an import or delete is one transaction, memory changes only after
	//   its commit, no error is swallowed — so the wallet the file is exported from / imported into is the
	//   one the store holds, also when a commit fails
	// - the store's own key layout, prefix scans and bucket deletion (C19): a deleted keystore leaves
	//   nothing behind that a later import of the same file would meet
	// the passphrase an imported keystore is stored under is the one that was validated (and defaulted):
	// the C03/C05 gate rule — otherwise the import succeeds but no passphrase the caller knows unlocks it
	checkSamePassphraseGates(c, "C01-AUTH")
	c.pushAlias("C12-", "C01-TX-")
	checkC12(c)
	c.popAlias()
	c.pushAlias("C19-", "C01-LDB-")
	checkC19(c)
	c.popAlias()

	return Meta{
		Explanation: "Export/import decided as a writer/reader pair over the keystore file: field-by-field agreement with the durable keys (backward slices through the read helpers and forward into the put helpers), branch polarity of counters and of the two re-derivation loops, the passphrase gate of the import, authentication of every consumed field, the duplicate gate, and the completeness of delete.",
		NotDecided:  "equality of the re-derived addresses and keys as values for all seeds and counts (BIP32 arithmetic); signing ability after unlock (C05-BIND covers the path/branch binding); that a rejected import leaves the wallet unchanged is decided by C12 (single transaction, memory after commit).",
		Trusted:     []string{"go/ssa", "snacl secretbox authenticates its ciphertext", "scrypt digest check in DeriveKey"},
	}
}

func importFuncs(c *Ctx, rule string) (imp, alloc, cmks *ssa.Function) {
	imp = c.MustFn(rule, "poc/wallet/keystore", "(*KeystoreManagerForPoC).ImportKeystore")
	alloc = c.MustFn(rule, "poc/wallet/keystore", "(*KeystoreManagerForPoC).allocAddrMgrNamespace")
	cmks = c.MustFn(rule, "poc/wallet/keystore", "createManagerKeyScope")
	return
}

// importBody: the functions that make up the import of a keystore file — allocAddrMgrNamespace and
// createManagerKeyScope plus every keystore function they hand the file (a value of a keystore-file
// type) to, e.g. a shared decryption helper. Methods of the file types themselves are not included.
func importBody(alloc, cmks *ssa.Function) []*ssa.Function {
	var out []*ssa.Function
	seen := map[*ssa.Function]bool{}
	var walk func(f *ssa.Function, depth int)
	walk = func(f *ssa.Function, depth int) {
		if f == nil || seen[f] {
			return
		}
		seen[f] = true
		out = append(out, f)
		if depth == 0 {
			return
		}
		for _, g := range withClosures(f) {
			allInstrs(g, func(in ssa.Instruction) {
				cl, ok := in.(*ssa.Call)
				if !ok {
					return
				}
				h := cl.Call.StaticCallee()
				if h == nil || pkgOf(h) != pkgKeystore || len(h.Blocks) == 0 || h.Signature.Recv() != nil && isFileType(h.Signature.Recv().Type()) {
					return
				}
				for _, a := range cl.Call.Args {
					if isFileType(a.Type()) {
						walk(h, depth-1)
						return
					}
				}
			})
		}
	}
	walk(alloc, 2)
	walk(cmks, 2)
	return out
}

func isFileType(t types.Type) bool {
	if p, ok := t.(*types.Pointer); ok {
		t = p.Elem()
	}
	n, _ := namedStruct(t)
	return n != nil && keystoreFileTypes[typeFullName(n)]
}

// fileFieldLoads: loads of keystore-file fields in fn: "Type.Field" -> load values.
func fileFieldLoads(fn *ssa.Function) map[string][]ssa.Value {
	out := map[string][]ssa.Value{}
	for _, a := range fieldAccesses(fn) {
		if a.Kind != "load" || !keystoreFileTypes[a.Type] {
			continue
		}
		v, ok := a.In.(ssa.Value)
		if !ok {
			continue
		}
		// nested struct loads (kStore.Crypto, kStore.HDpath) are containers, not data
		if n, _ := namedStruct(v.Type()); n != nil && keystoreFileTypes[typeFullName(n)] {
			continue
		}
		out[shortType(a.Type)+"."+a.Field] = append(out[shortType(a.Type)+"."+a.Field], v)
	}
	return out
}

// keysReadInto: durable keys whose read flows into v (through the read helpers' result indices).
func keysReadInto(c *Ctx, fn *ssa.Function, v ssa.Value) map[string]bool {
	out := map[string]bool{}
	resKeys := func(f *ssa.Function, idx int) {
		for _, ret := range returnsOf(f) {
			if idx >= len(ret.Results) {
				continue
			}
			for x := range backSlice(ret.Results[idx]).vals {
				if cl, m, ok := bucketInvoke(instrOf(x)); ok && bucketReadMethods[m] && len(cl.Call.Args) > 0 {
					for _, k := range keyNamesOf(cl.Call.Args[0]) {
						out[k] = true
					}
				}
			}
		}
	}
	for x := range deepSlice(fn, v).vals {
		switch y := x.(type) {
		case *ssa.Extract:
			if cl, ok := y.Tuple.(*ssa.Call); ok {
				if f := cl.Call.StaticCallee(); f != nil && pkgOf(f) == pkgKeystore {
					resKeys(f, y.Index)
				}
			}
		case *ssa.Call:
			if f := y.Call.StaticCallee(); f != nil && pkgOf(f) == pkgKeystore && f.Signature.Results().Len() == 1 {
				resKeys(f, 0)
			}
		}
	}
	return out
}

func c01Fields(c *Ctx) {
	rule := "C01-FIELDS"
	exp := c.MustFn(rule, "poc/wallet/keystore", "export")
	_, alloc, cmks := importFuncs(c, rule)
	if exp == nil || alloc == nil || cmks == nil {
		return
	}
	want := map[string]string{
		"keystore.Keystore.Remark":               "remarkName",
		"keystore.cryptoJSON.MasterHDPrivKeyEnc": "masterHDPrivName",
		"keystore.cryptoJSON.PrivParams":         "masterPrivKeyName",
		"keystore.cryptoJSON.CryptoKeyPrivEnc":   "cryptoPrivKeyName",
		"keystore.hdPath.Account":                "accountUsageName",
		"keystore.hdPath.ExternalChildNum":       "externalChildNumName",
		"keystore.hdPath.InternalChildNum":       "internalChildNumName",
	}
	// consumed by import
	consumed := map[string][]ssa.Value{}
	body := importBody(alloc, cmks)
	inBody := map[*ssa.Function]bool{}
	for _, f := range body {
		inBody[f] = true
		for k, v := range fileFieldLoads(f) {
			consumed[k] = append(consumed[k], v...)
		}
	}
	// filled by export
	filled := map[string]ssa.Value{}
	for _, a := range fieldAccesses(exp) {
		if a.Kind == "store" && keystoreFileTypes[a.Type] {
			filled[shortType(a.Type)+"."+a.Field] = a.In.(*ssa.Store).Val
		}
	}
	var names []string
	for k := range consumed {
		names = append(names, k)
	}
	sort.Strings(names)
	for _, f := range names {
		key := "file-field:" + f
		v, ok := filled[f]
		if !ok {
			c.Bad(rule, key, c.Pos(exp.Pos()), "import consumes "+f+" but export never sets it: every exported file restores a different wallet")
			continue
		}
		k, known := want[f]
		if !known {
			c.Bad(rule, key, c.Pos(exp.Pos()), "import consumes "+f+", which is not in the table of file fields (new field: add its durable key)")
			continue
		}
		got := keysReadInto(c, exp, v)
		if !got[k] {
			c.Bad(rule, key, c.Pos(exp.Pos()), fmt.Sprintf("export fills %s from %v, not from the read of %s", f, sortedKeys(got), k))
			continue
		}
		// no sibling key of the same family crosses in
		cross := ""
		for other := range got {
			if other != k && (strings.Contains(other, "ChildNum") || strings.HasPrefix(other, "master") || strings.HasPrefix(other, "crypto")) && familyOf(other) == familyOf(k) {
				cross = other
			}
		}
		if cross != "" {
			c.Bad(rule, key, c.Pos(exp.Pos()), fmt.Sprintf("export fills %s from %s as well as %s", f, cross, k))
			continue
		}
		c.OK(rule, key, c.Pos(exp.Pos()), "export: "+f+" ← "+k)
	}
	for f := range want {
		if _, ok := consumed[f]; !ok {
			c.Bad(rule, "file-field:"+f, c.Pos(alloc.Pos()), "import no longer consumes "+f+": the restored wallet does not depend on what was exported")
		}
	}
	// import stores each data field back under its key (forward: the put argument's slice contains the field load)
	puts := map[string][]*ssa.Call{}
	seenPut := map[*ssa.Call]bool{}
	for _, f := range []*ssa.Function{alloc, cmks} {
		allInstrsDeep(f, nil, func(in ssa.Instruction) {
			if cl, ok := in.(*ssa.Call); ok && !seenPut[cl] {
				if g := cl.Call.StaticCallee(); g != nil && pkgOf(g) == pkgKeystore && (strings.HasPrefix(g.Name(), "put") || g.Name() == "updateChildNum") {
					seenPut[cl] = true
					puts[g.Name()] = append(puts[g.Name()], cl)
				}
			}
		})
	}
	feeds := func(field string, calls []*ssa.Call, argIdx int) bool {
		for _, cl := range calls {
			if argIdx >= len(cl.Call.Args) {
				continue
			}
			s := deepSlice(cl.Parent(), cl.Call.Args[argIdx])
			for _, ld := range consumed[field] {
				if s.has(ld) {
					return true
				}
			}
			// the field may be read by a function of the import body whose result feeds the argument
			for x := range s.vals {
				hc, isC := x.(*ssa.Call)
				if !isC {
					continue
				}
				h := hc.Call.StaticCallee()
				if h == nil || !inBody[h] || h == cl.Parent() {
					continue
				}
				for _, ret := range returnsOf(h) {
					for _, r := range ret.Results {
						rs := backSlice(r)
						for _, ld := range consumed[field] {
							if rs.has(ld) {
								return true
							}
						}
					}
				}
			}
		}
		return false
	}
	type back struct {
		field, helper string
		arg           int
	}
	for _, b := range []back{
		{"keystore.Keystore.Remark", "putRemark", 1},
		{"keystore.cryptoJSON.MasterHDPrivKeyEnc", "putMasterHDKeys", 1},
		{"keystore.hdPath.Account", "putAccountInfo", 1},
		{"keystore.hdPath.ExternalChildNum", "putLastIndex", 1},
		{"keystore.hdPath.InternalChildNum", "putLastIndex", 2},
	} {
		key := "import-stores:" + b.field
		if feeds(b.field, puts[b.helper], b.arg) {
			c.OK(rule, key, "", fmt.Sprintf("%s feeds argument %d of %s", b.field, b.arg, b.helper))
		} else {
			c.Bad(rule, key, c.Pos(alloc.Pos()), fmt.Sprintf("import does not store %s through %s (argument %d): the restored keystore differs from the exported one", b.field, b.helper, b.arg))
		}
	}
}

func familyOf(k string) string {
	switch {
	case strings.Contains(k, "ChildNum"):
		return "counter"
	case strings.HasPrefix(k, "masterHD"):
		return "hd"
	case strings.HasPrefix(k, "master"):
		return "master"
	case strings.HasPrefix(k, "crypto"):
		return "crypto"
	}
	return k
}

// ---- BRANCH -------------------------------------------------------------------------------

func branchConst(c *Ctx, name string) (string, bool) {
	p := c.SSA[pkgKeystore]
	if p == nil {
		return "", false
	}
	if m, ok := p.Members[name]; ok {
		switch x := m.(type) {
		case *ssa.NamedConst:
			return x.Value.Value.ExactString(), true
		case *ssa.Global:
			// `var ( ExternalBranch uint32 = 0 )`: initialised in init; resolve from the init function
			init := p.Func("init")
			val := ""
			if init != nil {
				allInstrs(init, func(in ssa.Instruction) {
					if st, ok := in.(*ssa.Store); ok && st.Addr == ssa.Value(x) {
						if k, isK := st.Val.(*ssa.Const); isK && k.Value != nil {
							val = k.Value.ExactString()
						}
					}
				})
			}
			if val != "" {
				return val, true
			}
			// zero-valued globals have no initialiser
			return "0", true
		}
	}
	return "", false
}

// branchOfValue: "external"/"internal" when v is the constant (or a load of the global) naming a branch.
func branchOfValue(c *Ctx, v ssa.Value) string {
	v = strip(v)
	if u, ok := v.(*ssa.UnOp); ok && u.Op == token.MUL {
		if g, isG := u.X.(*ssa.Global); isG {
			if g.Name() == "ExternalBranch" {
				return "external"
			}
			if g.Name() == "InternalBranch" {
				return "internal"
			}
		}
	}
	if k, ok := v.(*ssa.Const); ok && k.Value != nil {
		ex, ok1 := branchConst(c, "ExternalBranch")
		in, ok2 := branchConst(c, "InternalBranch")
		s := k.Value.ExactString()
		if ok1 && s == ex {
			return "external"
		}
		if ok2 && s == in {
			return "internal"
		}
	}
	return ""
}

func c01Branch(c *Ctx) {
	rule := "C01-BRANCH"
	checkBranchPolarity(c, rule)
	checkImportLoopPolarity(c, rule)
	checkCountersFinal(c, rule)
}

// checkImportLoopPolarity: each re-derivation loop of import (bounded by one branch's counter) derives
// from that branch's key and records that branch (shared by C01 and C06).
func checkImportLoopPolarity(c *Ctx, rule string) {
	_, _, cmks := importFuncs(c, rule)
	if cmks == nil {
		return
	}
	// loops bounded by a counter field of hdPath
	found := 0
	for _, b := range cmks.Blocks {
		iff, ok := b.Instrs[len(b.Instrs)-1].(*ssa.If)
		if !ok {
			continue
		}
		cmp, ok := iff.Cond.(*ssa.BinOp)
		if !ok || cmp.Op != token.LSS {
			continue
		}
		typ, fld, _, isF := fieldOfValue(cmp.Y)
		if !isF || typ != pkgKeystore+".hdPath" || !isCounterField(fld) {
			continue
		}
		// a loop: the header is re-entered from its body
		if !blockReentered(cmks, iff) {
			continue
		}
		want := branchOfName(fld)
		found++
		body := map[*ssa.BasicBlock]bool{}
		work := []*ssa.BasicBlock{b.Succs[0]}
		for len(work) > 0 {
			x := work[len(work)-1]
			work = work[:len(work)-1]
			if body[x] || x == b {
				continue
			}
			body[x] = true
			work = append(work, x.Succs...)
		}
		// only blocks that can return to the header belong to the loop
		for x := range body {
			back := false
			seen := map[*ssa.BasicBlock]bool{}
			w2 := []*ssa.BasicBlock{x}
			for len(w2) > 0 && !back {
				y := w2[len(w2)-1]
				w2 = w2[:len(w2)-1]
				if seen[y] {
					continue
				}
				seen[y] = true
				for _, s := range y.Succs {
					if s == b {
						back = true
					}
					w2 = append(w2, s)
				}
			}
			if !back {
				delete(body, x)
			}
		}
		key := "createManagerKeyScope:loop<" + fld
		var bad []string
		markers := 0
		for x := range body {
			for _, in := range x.Instrs {
				switch y := in.(type) {
				case *ssa.Store:
					if _, f, _, ok := fieldOfAddr(y.Addr); ok && strings.EqualFold(f, "branch") {
						if bv := branchOfValue(c, y.Val); bv != "" {
							markers++
							if bv != want {
								bad = append(bad, fmt.Sprintf("records branch %s at %s", bv, c.Pos(y.Pos())))
							}
						}
					}
				case *ssa.Call:
					if callName(y) == "Child" && strings.HasSuffix(calleeID(y), "hdkeychain.ExtendedKey).Child") {
						// the key derived from: Child(acct, <branch const>) somewhere in the receiver's slice
						for z := range backSlice(callRecv(y)).vals {
							if cl, ok := z.(*ssa.Call); ok && callName(cl) == "Child" && cl != y && len(cl.Call.Args) == 2 {
								bv := branchOfValue(c, cl.Call.Args[1])
								if bv == "" {
									// both branch keys derived in one loop over a literal list of branch numbers and
									// collected by append: the key taken at position p is the child of the p-th number
									bv = branchOfCollected(c, callRecv(y), cl)
								}
								if bv != "" {
									markers++
									if bv != want {
										bad = append(bad, fmt.Sprintf("derives from the %s branch key at %s", bv, c.Pos(y.Pos())))
									}
								}
							}
						}
					}
				}
			}
		}
		sort.Strings(bad)
		switch {
		case len(bad) > 0:
			c.Bad(rule, key, c.Pos(iff.Pos()), fmt.Sprintf("the loop over the %s counter %s: re-imported addresses of one branch are the other branch's keys", want, strings.Join(bad, "; ")))
		case markers < 3:
			c.Unk(rule, key, c.Pos(iff.Pos()), fmt.Sprintf("only %d branch markers found in the loop body (expected the derivation, the path and the persisted entry)", markers))
		default:
			c.OK(rule, key, c.Pos(iff.Pos()), fmt.Sprintf("%d branch markers in the loop body, all %s", markers, want))
		}
	}
	if found != 2 {
		c.Bad(rule, "createManagerKeyScope:loops", c.Pos(cmks.Pos()), fmt.Sprintf("reason=anchor-missing: expected two re-derivation loops bounded by the external and internal counters, found %d", found))
	}
}

// branchOfCollected: recv (the key an address is derived from) is element p of a slice filled by append in
// a loop `for _, b := range [...]uint32{…}` in which child = acct.Child(b): the branch of the p-th literal
// element. p is a constant or a branch constant used as an index. "" if the shape is different.
func branchOfCollected(c *Ctx, recv ssa.Value, child *ssa.Call) string {
	// the literal the loop ranges over
	var lit *ssa.Alloc
	for v := range backSlice(child.Call.Args[1]).vals {
		if ia, ok := v.(*ssa.IndexAddr); ok {
			base := ia.X
			if sl, isSl := base.(*ssa.Slice); isSl {
				base = sl.X
			}
			if a, isA := base.(*ssa.Alloc); isA {
				if _, isArr := a.Type().Underlying().(*types.Pointer).Elem().Underlying().(*types.Array); isArr {
					lit = a
				}
			}
		}
	}
	if lit == nil {
		return ""
	}
	// the position the key is taken from
	pos := ""
	for v := range backSlice(recv).vals {
		ia, ok := v.(*ssa.IndexAddr)
		if !ok {
			continue
		}
		if base := ia.X; base == ssa.Value(lit) {
			continue
		} else if sl, isSl := base.(*ssa.Slice); isSl && sl.X == ssa.Value(lit) {
			continue
		}
		switch branchOfValue(c, ia.Index) {
		case "external":
			pos, _ = branchConst(c, "ExternalBranch")
		case "internal":
			pos, _ = branchConst(c, "InternalBranch")
		default:
			if k, isK := strip(ia.Index).(*ssa.Const); isK && k.Value != nil {
				pos = k.Value.ExactString()
			}
		}
	}
	if pos == "" {
		return ""
	}
	out := ""
	if refs := lit.Referrers(); refs != nil {
		for _, r := range *refs {
			ia, ok := r.(*ssa.IndexAddr)
			if !ok {
				continue
			}
			k, isK := strip(ia.Index).(*ssa.Const)
			if !isK || k.Value == nil || k.Value.ExactString() != pos {
				continue
			}
			if irefs := ia.Referrers(); irefs != nil {
				for _, ir := range *irefs {
					if st, isSt := ir.(*ssa.Store); isSt && st.Addr == ssa.Value(ia) {
						out = branchOfValue(c, st.Val)
					}
				}
			}
		}
	}
	return out
}

// ---- AUTH ---------------------------------------------------------------------------------

func c01Auth(c *Ctx) {
	rule := "C01-AUTH"
	_, alloc, _ := importFuncs(c, rule)
	if alloc == nil {
		return
	}
	targets := callInstrs(callsIn(alloc, pkgKeystore+".putMasterKeyParams", pkgKeystore+".putCryptoKeys", pkgKeystore+".putMasterHDKeys", pkgKeystore+".createManagerKeyScope", pkgKeystore+".putRemark"))
	// the authenticating steps may be performed by a keystore function import calls (e.g. the shared
	// decryption of the file's master HD key): then that function must fail when the step fails, and
	// import is gated on the call of that function (summary.go, findSteps)
	ums := findSteps(alloc, func(cl *ssa.Call) bool { return isCall(cl, idUnmarshalMP) }, 2)
	if len(ums) == 0 || len(targets) < 4 {
		c.Bad(rule, "allocAddrMgrNamespace:anchor", c.Pos(alloc.Pos()), "reason=anchor-missing: unmarshalMasterPrivKey / put calls")
		return
	}
	um := ums[0]
	gate := func(key string, loc stepLoc, what string) {
		call := loc.Site
		if ok, why := stepFailsVia(loc); !ok {
			c.Bad(rule, key, c.Pos(loc.Step.Pos()), "a failure of "+what+" does not fail the function import relies on for it: "+why)
			return
		}
		if len(errResults(call)) == 0 {
			c.Bad(rule, key, c.Pos(call.Pos()), "the result of "+what+" is not tested")
			return
		}
		if ok, at := unreachableWhenCut(alloc, errorEdgeCut(alloc, call, false), targets); ok {
			c.OK(rule, key, c.Pos(call.Pos()), "nothing is stored unless "+what+" succeeded")
		} else {
			c.Bad(rule, key, c.Pos(at.Pos()), "the imported keystore is stored although "+what+" failed: a wrong passphrase or a corrupted file is accepted")
		}
	}
	if !sliceVia(um.Step.Call.Args[1], um).hasParam(alloc, "oldPass") {
		c.Bad(rule, "allocAddrMgrNamespace:digest-check", c.Pos(um.Step.Pos()), "the file's master key is not derived from the caller's old passphrase")
	} else {
		gate("allocAddrMgrNamespace:digest-check", um, "unmarshalMasterPrivKey(oldPass, file parameters)")
	}
	decs := findSteps(alloc, func(cl *ssa.Call) bool {
		return callName(cl) == "Decrypt" && strings.Contains(calleeID(cl), "/keystore")
	}, 2)
	for i, d := range decs {
		gate(fmt.Sprintf("allocAddrMgrNamespace:decrypt#%d", i+1), d, "secretbox Decrypt")
	}
	if len(decs) < 2 {
		c.Bad(rule, "allocAddrMgrNamespace:decrypt", c.Pos(alloc.Pos()), "reason=anchor-missing: the two Decrypt steps (crypto key, master HD key)")
	}
}

// ---- TAMPER -------------------------------------------------------------------------------

func c01Tamper(c *Ctx) {
	rule := "C01-TAMPER"
	_, alloc, cmks := importFuncs(c, rule)
	if alloc == nil || cmks == nil {
		return
	}
	type use struct {
		fn *ssa.Function
		v  ssa.Value
	}
	consumed := map[string][]use{}
	for _, f := range importBody(alloc, cmks) {
		for k, vs := range fileFieldLoads(f) {
			for _, v := range vs {
				consumed[k] = append(consumed[k], use{f, v})
			}
		}
	}
	var names []string
	for k := range consumed {
		names = append(names, k)
	}
	sort.Strings(names)
	for _, f := range names {
		key := "import-consumes:" + f
		authenticated := true
		why := ""
		for _, u := range consumed[f] {
			// every forward use ends in an authenticating consumer
			ok := false
			for al := range aliasesForward(u.fn, u.v) {
				refs := al.Referrers()
				if refs == nil {
					continue
				}
				for _, r := range *refs {
					cl, isC := r.(*ssa.Call)
					if !isC {
						continue
					}
					if isCall(cl, "encoding/hex.DecodeString") {
						// the decoded bytes must feed unmarshalMasterPrivKey's parameters or a Decrypt input
						dec := resultOf(cl, 0)
						for al2 := range aliasesForward(u.fn, dec) {
							if rr := al2.Referrers(); rr != nil {
								for _, r2 := range *rr {
									if c2, isC2 := r2.(*ssa.Call); isC2 {
										if isCall(c2, idUnmarshalMP) && len(c2.Call.Args) == 3 && c2.Call.Args[2] == al2 {
											ok = true
										}
										if callName(c2) == "Decrypt" && len(callArgs(c2)) == 1 && callArgs(c2)[0] == al2 {
											ok = true
										}
									}
								}
							}
						}
					}
				}
			}
			if !ok {
				authenticated = false
				why = c.Pos(u.v.Pos())
			}
		}
		if authenticated {
			c.OK(rule, key, "", "reaches the wallet only through the digest check / secretbox open")
		} else {
			c.Bad(rule, key, why, f+" of the keystore file is used by import without authentication: a file with this field altered is accepted and restores a different wallet (remark, account or number of keys)")
		}
	}
}

// ---- DUP ----------------------------------------------------------------------------------

func c01Dup(c *Ctx) {
	rule := "C01-DUP"
	_, _, cmks := importFuncs(c, rule)
	if cmks == nil {
		return
	}
	var get *ssa.Call
	allInstrs(cmks, func(in ssa.Instruction) {
		if cl, m, ok := bucketInvoke(in); ok && m == "Get" && backSlice(cl.Call.Args[0]).hasCallTo(pkgKeystore+".pubKeyToAccountID") {
			get = cl
		}
	})
	putID := firstCall(cmks, pkgKeystore+".putAccountID")
	var nb *ssa.Call
	allInstrs(cmks, func(in ssa.Instruction) {
		if cl, m, ok := bucketInvoke(in); ok && (m == "NewBucket" || m == "Bucket") && backSlice(cl.Call.Args[0]).hasCallTo(pkgKeystore+".pubKeyToAccountID") {
			nb = cl
		}
		if cl, ok := in.(*ssa.Call); ok && isCall(cl, pkgDB+".GetOrCreateBucket") && backSlice(cl.Call.Args[1]).hasCallTo(pkgKeystore+".pubKeyToAccountID") {
			nb = cl
		}
	})
	if get == nil || putID == nil || nb == nil {
		c.Bad(rule, "createManagerKeyScope:anchor", c.Pos(cmks.Pos()), "reason=anchor-missing: duplicate lookup / putAccountID / bucket creation keyed by the account id")
		return
	}
	// present (value != nil) edge cut: writes unreachable
	val := resultOf(get, 0)
	tests := nilTestsOf(cmks, val)
	if len(tests) == 0 {
		c.Bad(rule, "createManagerKeyScope:duplicate-gate", c.Pos(get.Pos()), "the result of the duplicate lookup is never tested: an already present keystore is overwritten")
	} else {
		cut := func(from, to *ssa.BasicBlock) bool {
			for _, t := range tests {
				if from == t.If.Block() && to == t.NilSucc && t.NilSucc != t.NonNil {
					return true
				}
			}
			return false
		}
		if ok, at := unreachableWhenCut(cmks, cut, []ssa.Instruction{putID, nb}); ok {
			c.OK(rule, "createManagerKeyScope:duplicate-gate", c.Pos(get.Pos()), "putAccountID and the bucket creation lie only behind the 'id not present' edge")
		} else {
			c.Bad(rule, "createManagerKeyScope:duplicate-gate", c.Pos(at.Pos()), "the keystore is written although its id is already present")
		}
	}
	// the id looked up, recorded and used as bucket name is one value
	id := func(v ssa.Value) ssa.Value {
		for x := range backSlice(v).vals {
			if cl, ok := x.(*ssa.Call); ok && isCall(cl, pkgKeystore+".pubKeyToAccountID") {
				return cl
			}
		}
		return nil
	}
	a, b2, d := id(get.Call.Args[0]), id(putID.Call.Args[1]), id(nb.Call.Args[len(nb.Call.Args)-1])
	if a != nil && a == b2 && a == d {
		c.OK(rule, "createManagerKeyScope:one-id", c.Pos(a.Pos()), "lookup, account-id entry and bucket name are the same pubKeyToAccountID result")
	} else {
		c.Bad(rule, "createManagerKeyScope:one-id", c.Pos(get.Pos()), "the id checked for presence is not the id recorded / used as bucket name")
	}
	// fresh bucket
	if _, m, isInv := bucketInvoke(nb); isInv && m == "NewBucket" && len(errResults(nb)) > 0 {
		if ok, _ := unreachableWhenCut(cmks, errorEdgeCut(cmks, nb, false), callInstrs(callsIn(cmks, pkgKeystore+".putAccountInfo", pkgKeystore+".putLastIndex"))); ok {
			c.OK(rule, "createManagerKeyScope:fresh-bucket", c.Pos(nb.Pos()), "km.NewBucket(id): an existing bucket (left-over of an incomplete delete) fails the import")
		} else {
			c.Bad(rule, "createManagerKeyScope:fresh-bucket", c.Pos(nb.Pos()), "a failure of NewBucket does not stop the import")
		}
	} else {
		c.Bad(rule, "createManagerKeyScope:fresh-bucket", c.Pos(nb.Pos()), "the keystore bucket is opened with get-or-create: an import silently adopts whatever a previous keystore of the same id left behind (stale public keys encrypted under another key)")
	}
}

// ---- DELETE -------------------------------------------------------------------------------

func c01Delete(c *Ctx) {
	rule := "C01-DELETE"
	del := c.MustFn(rule, "poc/wallet/keystore", "(*KeystoreManagerForPoC).DeleteKeystore")
	if del == nil {
		return
	}
	var cl0 *ssa.Function
	for _, s := range txSitesBody(del) {
		if s.Write && s.Closure != nil {
			cl0 = s.Closure
		}
	}
	if cl0 == nil {
		c.Bad(rule, "DeleteKeystore:anchor", c.Pos(del.Pos()), "reason=anchor-missing: db.Update closure")
		return
	}
	type step struct {
		name string
		is   func(in ssa.Instruction) bool
	}
	steps := []step{
		{"bucket-cleared", func(in ssa.Instruction) bool {
			cl, ok := in.(*ssa.Call)
			return ok && isCall(cl, "(*"+tAddrMgr+").destroy")
		}},
		{"bucket-deleted-under-own-name", func(in ssa.Instruction) bool {
			cl, m, ok := bucketInvoke(in)
			return ok && m == "DeleteBucket" && backSlice(cl.Call.Args[0]).hasField(tAddrMgr, "keystoreName")
		}},
		{"account-id-deleted", func(in ssa.Instruction) bool {
			cl, ok := in.(*ssa.Call)
			return ok && isCall(cl, pkgKeystore+".deleteAccountID") && cellHoldsParam(cl.Call.Args[1], del, "accountID")
		}},
	}
	for _, st := range steps {
		key := "DeleteKeystore:" + st.name
		// a step may sit in a helper the transaction body calls (summary.go): a call of a helper that
		// performs the step on every path to its return counts as the step
		r := reach(cl0, cl0.Blocks[0].Instrs[0], nil, liftMustOnSuccess(cl0, st.is))
		bad := false
		for _, ret := range returnsOf(cl0) {
			if isNilErrorReturn(ret) && r(ret) {
				bad = true
			}
		}
		present := mayDo(cl0, st.is)
		switch {
		case !present:
			c.Bad(rule, key, c.Pos(cl0.Pos()), "the delete transaction no longer performs this step: remains of the keystore survive and a later import of the same keystore meets them")
		case bad:
			c.Bad(rule, key, c.Pos(cl0.Pos()), "the delete transaction can commit without this step")
		default:
			c.OK(rule, key, c.Pos(cl0.Pos()), "every committing path of the transaction passes this step")
		}
	}
}

// ---- CHAIN --------------------------------------------------------------------------------

func c01Chain(c *Ctx) {
	rule := "C01-CHAIN"
	encOrigin := func(fn *ssa.Function, v ssa.Value) *ssa.Call {
		var out *ssa.Call
		valueOrigins(fn, v, func(r ssa.Value) {
			if cl, ok := r.(*ssa.Call); ok && callName(cl) == "Encrypt" {
				out = cl
			}
			if ex, ok := r.(*ssa.Extract); ok {
				if cl, ok := ex.Tuple.(*ssa.Call); ok && callName(cl) == "Encrypt" {
					out = cl
				}
			}
		})
		return out
	}
	for _, name := range []string{"create", "(*KeystoreManagerForPoC).allocAddrMgrNamespace"} {
		f := c.MustFn(rule, "poc/wallet/keystore", name)
		if f == nil {
			continue
		}
		short := strings.TrimPrefix(name, "(*KeystoreManagerForPoC).")
		hd := firstCall(f, pkgKeystore+".putMasterHDKeys")
		ck := firstCall(f, pkgKeystore+".putCryptoKeys")
		mp := firstCall(f, pkgKeystore+".putMasterKeyParams")
		sc := firstCall(f, pkgKeystore+".createManagerKeyScope")
		if hd == nil || ck == nil || mp == nil || sc == nil {
			c.Bad(rule, short+":anchor", c.Pos(f.Pos()), "reason=anchor-missing: putMasterHDKeys / putCryptoKeys / putMasterKeyParams / createManagerKeyScope")
			continue
		}
		hdEnc := encOrigin(f, hd.Call.Args[1])
		ckEnc := encOrigin(f, ck.Call.Args[2])
		if hdEnc == nil || ckEnc == nil {
			c.Bad(rule, short+":anchor", c.Pos(f.Pos()), "reason=anchor-missing: the Encrypt calls producing mhdpriv / cpriv")
			continue
		}
		// the crypto key object whose bytes go into cpriv
		var bytesRecv ssa.Value
		for x := range backSlice(callArgs(ckEnc)[0]).vals {
			if b, ok := x.(*ssa.Call); ok && callName(b) == "Bytes" {
				bytesRecv = callRecv(b)
			}
		}
		key := short + ":mhdpriv-sealed-by-the-stored-crypto-key"
		if bytesRecv != nil && sameOriginValue(f, callRecv(hdEnc), bytesRecv) {
			c.OK(rule, key, c.Pos(hdEnc.Pos()), "the master HD key is encrypted by the crypto key whose bytes are stored (encrypted) as cpriv")
		} else {
			c.Bad(rule, key, c.Pos(hdEnc.Pos()), "the master HD key is encrypted under a key other than the private crypto key stored beside it: the keystore works until it is exported — every file it exports is undecryptable")
		}
		key = short + ":scope-keys-sealed-by-the-stored-crypto-key"
		// createManagerKeyScope(km, root, cryptoKeyPub, cryptoKeyPriv, …)
		privArg := -1
		for i, p := range sc.Call.StaticCallee().Params {
			if p.Name() == "cryptoKeyPriv" {
				privArg = i
			}
		}
		if privArg >= 0 && bytesRecv != nil && sameOriginValue(f, sc.Call.Args[privArg], bytesRecv) {
			c.OK(rule, key, c.Pos(sc.Pos()), "the account key is encrypted by the same private crypto key")
		} else {
			c.Bad(rule, key, c.Pos(sc.Pos()), "createManagerKeyScope receives a private crypto key other than the one stored as cpriv: the account key cannot be decrypted after unlock")
		}
		key = short + ":cpriv-sealed-by-the-stored-master-key"
		var marshalRecv ssa.Value
		for x := range backSlice(mp.Call.Args[2]).vals {
			if m, ok := x.(*ssa.Call); ok && callName(m) == "Marshal" {
				marshalRecv = callRecv(m)
			}
		}
		if marshalRecv != nil && sameOriginValue(f, callRecv(ckEnc), marshalRecv) {
			c.OK(rule, key, c.Pos(ckEnc.Pos()), "cpriv is encrypted by the master key whose parameters are stored as mpriv")
		} else {
			c.Bad(rule, key, c.Pos(ckEnc.Pos()), "the private crypto key is encrypted under a master key whose parameters are not the ones stored: no passphrase opens the keystore")
		}
	}
	checkParsedKeyWidth(c, rule)
}
