package main

// Checker self-validation through type-checker overlays (thorough tier): each variant is one
// exact-once textual substitution in one file of the current tree. Kill variants must be reported
// (exit 1, naming the expected rule); silent variants (behaviour-preserving refactors) must not.
// Nothing is written under /repo.

import (
	"encoding/json"
	"fmt"
	"os"
	"os/exec"
	"path/filepath"
	"strings"
	"sync"
)

type variant struct {
	Name string
	Kill bool   // true: must be reported; false: must stay quiet
	File string // repo-relative
	Old  string
	New  string
	Rule string // for kill variants: rule id expected in the report
	// Second optional substitution in another (or the same) file
	File2, Old2, New2 string
	// Patch: instead of substitutions, a unified diff (a stored seed) applied to copies of the files it names
	Patch string
}

var variants = map[string][]variant{}

type variantResult struct {
	Name     string `json:"name"`
	Kind     string `json:"kind"`
	Outcome  string `json:"outcome"` // reported | quiet | skipped(anchor text absent) | does-not-compile
	Expected string `json:"expected"`
	OK       bool   `json:"ok"`
	Rule     string `json:"rule,omitempty"`
}

var lastSelfTest []variantResult

func runSelfTest(prop, repo, verif string) int {
	vs := append([]variant{}, variants[prop]...)
	vs = append(vs, seedVariants(prop, verif)...)
	if len(vs) == 0 {
		fmt.Printf("%s self-validation: no variants registered\n", prop)
		return 0
	}
	self, err := os.Executable()
	if err != nil {
		fmt.Printf("BROKEN: %v\n", err)
		return 2
	}
	results := make([]variantResult, len(vs))
	sem := make(chan struct{}, 6)
	var wg sync.WaitGroup
	for i, v := range vs {
		wg.Add(1)
		go func(i int, v variant) {
			defer wg.Done()
			sem <- struct{}{}
			defer func() { <-sem }()
			results[i] = runVariant(self, prop, repo, verif, v)
		}(i, v)
	}
	wg.Wait()
	bad := 0
	for _, r := range results {
		status := "ok"
		if !r.OK {
			status = "FAILED"
			bad++
		}
		fmt.Printf("  self-validation %-7s %-6s %-55s expected=%s outcome=%s\n", status, r.Kind, r.Name, r.Expected, r.Outcome)
	}
	lastSelfTest = results
	rb, _ := json.MarshalIndent(results, "", " ")
	os.MkdirAll(filepath.Join(verif, "evidence", "selftest"), 0o755)
	os.WriteFile(filepath.Join(verif, "evidence", "selftest", prop+".json"), rb, 0o644)
	if bad > 0 {
		fmt.Printf("BROKEN: %d self-validation variant(s) of %s did not behave as expected (this is a defect of the checker, not a property violation)\n", bad, prop)
		return 2
	}
	return 0
}

func applyOnce(src, old, new string) (string, bool) {
	if strings.Count(src, old) != 1 {
		return src, false
	}
	return strings.Replace(src, old, new, 1), true
}

func runVariant(self, prop, repo, verif string, v variant) variantResult {
	res := variantResult{Name: v.Name, Kind: "silent", Expected: "quiet", Rule: v.Rule}
	if v.Kill {
		res.Kind = "kill"
		res.Expected = "reported"
	}
	ov := map[string]string{}
	if v.Patch != "" {
		pov, why := overlayFromPatch(repo, v.Patch)
		if pov == nil {
			res.Outcome = "skipped(" + why + ")"
			res.OK = true
			return res
		}
		return runOverlay(self, prop, repo, verif, v, res, pov)
	}
	abs := filepath.Join(repo, v.File)
	b, err := os.ReadFile(abs)
	if err != nil {
		res.Outcome = "skipped(file absent)"
		res.OK = true
		return res
	}
	ns, ok := applyOnce(string(b), v.Old, v.New)
	if !ok {
		res.Outcome = "skipped(anchor text absent)"
		res.OK = true
		return res
	}
	ov[abs] = ns
	if v.File2 != "" {
		abs2 := filepath.Join(repo, v.File2)
		src2 := ov[abs2]
		if src2 == "" {
			b2, err := os.ReadFile(abs2)
			if err != nil {
				res.Outcome = "skipped(file absent)"
				res.OK = true
				return res
			}
			src2 = string(b2)
		}
		ns2, ok := applyOnce(src2, v.Old2, v.New2)
		if !ok {
			res.Outcome = "skipped(anchor text absent)"
			res.OK = true
			return res
		}
		ov[abs2] = ns2
	}
	return runOverlay(self, prop, repo, verif, v, res, ov)
}

// seedVariants: every stored seeded change of the property (a change confirmed to break the property
// while compiling and passing the suite) is a kill variant: the check must report it.
func seedVariants(prop, verif string) []variant {
	var out []variant
	dirs, _ := filepath.Glob(filepath.Join(verif, "seeded", prop+"-*"))
	for _, d := range dirs {
		mb, err := os.ReadFile(filepath.Join(d, "meta.json"))
		if err != nil {
			continue
		}
		var meta map[string]interface{}
		if json.Unmarshal(mb, &meta) != nil {
			continue
		}
		if st, ok := meta["status"].(string); ok && (strings.HasPrefix(st, "superseded") || strings.HasPrefix(st, "not-reported")) {
			continue // documented in DESIGN.md: fixed in /repo since, or a seed no rule is armed for (with the reason)
		}
		pf := filepath.Join(d, "patch.diff")
		if _, err := os.Stat(pf); err != nil {
			continue
		}
		out = append(out, variant{Name: "stored seed " + filepath.Base(d), Kill: true, Patch: pf})
	}
	// behaviour-preserving changes written by independent sub-agents (benigntool.sh): must stay quiet
	dirs, _ = filepath.Glob(filepath.Join(verif, "benign", prop+"-*"))
	for _, d := range dirs {
		pf := filepath.Join(d, "patch.diff")
		if _, err := os.Stat(pf); err != nil {
			continue
		}
		if mb, err := os.ReadFile(filepath.Join(d, "meta.json")); err == nil {
			var meta map[string]interface{}
			if json.Unmarshal(mb, &meta) == nil {
				if st, ok := meta["status"].(string); ok && strings.HasPrefix(st, "rejected") {
					continue
				}
			}
		}
		out = append(out, variant{Name: "stored refactoring " + filepath.Base(d), Kill: false, Patch: pf})
	}
	return out
}

// overlayFromPatch applies a unified diff to copies of the files it names and returns them as an overlay.
func overlayFromPatch(repo, patchFile string) (map[string]string, string) {
	if _, err := exec.LookPath("patch"); err != nil {
		return nil, "patch(1) not available"
	}
	pb, err := os.ReadFile(patchFile)
	if err != nil {
		return nil, "patch file unreadable"
	}
	var files []string
	newFiles := map[string]bool{}
	prev := ""
	for _, l := range strings.Split(string(pb), "\n") {
		if strings.HasPrefix(l, "+++ b/") {
			f := strings.TrimSpace(strings.TrimPrefix(l, "+++ b/"))
			files = append(files, f)
			if strings.HasPrefix(prev, "--- /dev/null") {
				newFiles[f] = true
			}
		}
		prev = l
	}
	if len(files) == 0 {
		return nil, "no files in patch"
	}
	tmp, err := os.MkdirTemp("", "verifchk-seed-*")
	if err != nil {
		return nil, "no temp dir"
	}
	defer os.RemoveAll(tmp)
	for _, f := range files {
		b, err := os.ReadFile(filepath.Join(repo, f))
		os.MkdirAll(filepath.Dir(filepath.Join(tmp, f)), 0o755)
		if err != nil {
			if newFiles[f] {
				continue // created by the patch
			}
			return nil, "file absent: " + f
		}
		os.WriteFile(filepath.Join(tmp, f), b, 0o644)
	}
	cmd := exec.Command("patch", "-p1", "--fuzz=3", "-s", "-N", "-d", tmp, "-i", patchFile)
	if out, err := cmd.CombinedOutput(); err != nil {
		return nil, "patch does not apply: " + lastLines(string(out), 1)
	}
	ov := map[string]string{}
	for _, f := range files {
		b, err := os.ReadFile(filepath.Join(tmp, f))
		if err != nil {
			return nil, "patched file unreadable"
		}
		ov[filepath.Join(repo, f)] = string(b)
	}
	return ov, ""
}

func runOverlay(self, prop, repo, verif string, v variant, res variantResult, ov map[string]string) variantResult {
	tmp, _ := os.CreateTemp("", "verifchk-ov-*.json")
	ob, _ := json.Marshal(ov)
	tmp.Write(ob)
	tmp.Close()
	defer os.Remove(tmp.Name())
	cmd := exec.Command(self, "-prop", prop, "-tier", "quick", "-repo", repo, "-verif", verif, "-overlay", tmp.Name(), "-no-evidence")
	out, err := cmd.CombinedOutput()
	code := 0
	if ee, ok := err.(*exec.ExitError); ok {
		code = ee.ExitCode()
	} else if err != nil {
		res.Outcome = "error: " + err.Error()
		return res
	}
	switch code {
	case 0:
		res.Outcome = "quiet"
		res.OK = !v.Kill
	case 1:
		res.Outcome = "reported"
		if v.Kill {
			res.OK = v.Rule == "" || strings.Contains(string(out), "rule="+v.Rule)
			if !res.OK {
				res.Outcome = "reported by a different rule than " + v.Rule
			}
		}
	case 3:
		res.Outcome = "does-not-compile"
		res.OK = false
	default:
		res.Outcome = fmt.Sprintf("checker broke (exit %d): %s", code, lastLines(string(out), 3))
	}
	return res
}

func lastLines(s string, n int) string {
	ls := strings.Split(strings.TrimSpace(s), "\n")
	if len(ls) > n {
		ls = ls[len(ls)-n:]
	}
	return strings.Join(ls, " | ")
}
