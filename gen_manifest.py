#!/usr/bin/env python3
"""Regenerates /verif/MANIFEST.json from the table below.
A property is claimed iff it has an entry in CLAIMED; everything else is listed under
not_applicable with its reason."""
import json, os, subprocess, sys

HERE = os.path.dirname(os.path.abspath(__file__))

# id -> (technique, level text, level note, design section)
CLAIMED = {}
PENDING = {}

def claim(pid, technique, text, note, ref):
    CLAIMED[pid] = dict(technique=technique, text=text, note=note, ref=ref)

exec(open(os.path.join(HERE, "manifest_table.py")).read())

props = [json.loads(l) for l in open(os.path.join(HERE, "properties.jsonl"))]
checks = []
na = []
for p in props:
    pid = p["id"]
    if pid in CLAIMED:
        c = CLAIMED[pid]
        checks.append({
            "property_id": pid,
            "quick_cmd": "./check %s quick" % pid,
            "thorough_cmd": "./check %s thorough" % pid,
            "evidence_file": "/verif/evidence/%s.json" % pid,
            "replay_cmd_template": "./check %s quick  # static finding: re-runs the rule on the construct recorded in {path}" % pid,
            "engine": "verifchk",
            "level_claimed": {"category": "other", "text": c["text"], "design_ref": c["ref"]},
            "level_note": c["note"],
            "technique": c["technique"],
        })
    else:
        na.append({"property_id": pid, "reason": PENDING.get(pid, "no sound static rule built for this property (see DESIGN.md)")})

m = {
    "version": 1,
    "setup_cmd": "./setup.sh",
    "hooks": {
        "guard": "verif",
        "enable": "no hooks: the checks are static and read /repo's working tree as it is (no build tag needed)",
        "baseline_off_cmd": "cd /repo && GOFLAGS=-mod=mod GOPROXY=off GOSUMDB=off go test -vet=off -count=1 -timeout 25m ./...",
        "source_commits": [],
        "add_only": True,
    },
    "engines": [{
        "name": "verifchk",
        "path": "/verif/checker",
        "serves_properties": sorted(CLAIMED.keys()),
        "kind_free_text": "repository-specific static analyser in Go over go/packages + go/ssa (x/tools v0.29.0): must-pass-through / edge-cut reachability, error-flow, who-may-call, pairwise locksets, blocking-under-lock, channel close/send discipline, transition extraction, value provenance and taint; thorough tier adds the VTA call graph and overlay-based self-validation (kill/silent variants)",
    }],
    "checks": checks,
    "not_applicable": na,
    "notes": "All checks are static (level 'other'): each decides named structural clauses that are necessary conditions of its property and says in evidence.coverage.not_decided what it does not decide. Genuine defects found are either repaired by 'fix:' commits in /repo or listed in known_findings.json.",
}
json.dump(m, open(os.path.join(HERE, "MANIFEST.json"), "w"), indent=1)
print("claimed:", sorted(CLAIMED.keys()))
print("not_applicable:", [x["property_id"] for x in na])
