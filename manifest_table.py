# Per-property claims. Anything not claimed here is listed under not_applicable with PENDING's reason.
NOTYET = "check not built yet in this session (static rules designed in DESIGN.md §4); not claimed until the rule runs quietly on the reference tree"
for i in range(1, 21):
    PENDING["C%02d" % i] = NOTYET

claim("C12",
      "SSA must-pass-through + error-flow + who-may-call on wallet transactions",
      "Static necessary conditions of wallet atomicity, for all paths: one db.Update per operation; bucket writes unreachable outside Update closures (call-graph cut); durable-image memory stored only behind the commit's success edge and never inside the closure; every storage/helper error inside a closure reaches its return as a provably non-nil error; db.Update rolls back on error and returns Commit's result. Right level because the property quantifies over every fault point and the rules quantify over every CFG path; not a proof of atomicity (leveldb trusted).",
      "Trusted: go/types + go/ssa (x/tools v0.29.0), goleveldb transaction atomicity, frozen tables (bucket write methods, durable-image fields). Not decided: the store's own crash behaviour; partial memory refresh when a post-commit read fails.",
      "DESIGN.md §4 C12")
