# Per-property claims. Anything not claimed here is listed under not_applicable with PENDING's reason.
NOTYET = "check not built yet in this session (static rules designed in DESIGN.md §4); not claimed until the rule runs quietly on the reference tree"
for i in range(1, 21):
    PENDING["C%02d" % i] = NOTYET

claim("C12",
      "SSA must-pass-through + error-flow + who-may-call on wallet transactions",
      "Static necessary conditions of wallet atomicity, for all paths: one db.Update per operation; bucket writes unreachable outside Update closures (call-graph cut); durable-image memory stored only behind the commit's success edge and never inside the closure; every storage/helper error inside a closure reaches its return as a provably non-nil error; db.Update rolls back on error and returns Commit's result. Right level because the property quantifies over every fault point and the rules quantify over every CFG path; not a proof of atomicity (leveldb trusted).",
      "Trusted: go/types + go/ssa (x/tools v0.29.0), goleveldb transaction atomicity, frozen tables (bucket write methods, durable-image fields). Not decided: the store's own crash behaviour; partial memory refresh when a post-commit read fails.",
      "DESIGN.md §4 C12")

claim("C10",
      "CFG ordering (write→Sync→checkpoint→Sync) with file identity + error-flow + edge-cut dominance",
      "Static necessary conditions of 'recorded progress never runs ahead of durable data' and 'never falsely complete', on every CFG path of both plotting passes: data Sync precedes every checkpoint write, the checkpoint write is followed by Sync of the same file, every possibly-successful return has passed the final checkpoint (derived from the volume), each window is written at the offset derived from its own start point, no storage error on the path is dropped, map A is removed only behind both passes' nil-return edges, readiness derives from map B's checkpoint. Right level: the property quantifies over every crash/fault point and the rule over every path; values (table equality after resume) are not decided.",
      "Trusted: go/ssa, os.File.Sync durability semantics, file identity by normalised access path. Not decided: equality of resumed and uninterrupted tables, safety of startPoint+1, the resume start point (deliberately not a rule).",
      "DESIGN.md §4 C10")
claim("C07",
      "must-pass-through (VerifyProof success edge) + provenance + read-completeness rule + window tiling + who-may-write census of the load/read path + worker-pool option census",
      "Decides only the clause 'every proof served verifies against the space's public key': on every path GetProof returns a non-nil proof only behind the success edge of poc.VerifyProof applied to the returned object, the DB's own key (hash) and the caller's challenge/filter; keeper forwards proof and error; miner keeps Error==nil only. Plus a necessary condition of table correctness: plotting reads are complete (io.ReadFull or tested count).",
      "Trusted: go/ssa, mass-core poc.VerifyProof as oracle. NOT decided (not applicable to static analysis): equality of the stored table with the construction, completeness (a proof is served whenever one exists), any number of windows.",
      "DESIGN.md §4 C07")

claim("C11",
      "who-may-call census of destructive file ops + call-graph cut + edge-cut dominance + provenance",
      "Static necessary conditions: the set of destructive file operations in the repository equals a frozen 6-entry who-may-destroy table with path provenance; plot files are erased only via DeleteWS (call-graph cut) and RemoveWS reaches no destructive op; remove/delete effects lie behind the Registered-or-Ready gate (v1 and v2) and MassDBV1.Delete behind plotting==0; every load check dominates indexing in generateInitialIndex; a real header-vs-name comparison guards OpenDB's success; loadHashMap's six header checks guard its success. Holds for all histories/directory contents because each is a property of all CFG/call-graph paths.",
      "Trusted: go/ssa, CHA call graph over repo types (VTA in thorough), frozen who-may-destroy table, state constant values. Not decided: behaviour for all directory contents as values, the regular expression's language, exactly-once beyond the duplicate gate.",
      "DESIGN.md §4 C11")

claim("C14",
      "pairwise lockset analysis (must-held locks, interprocedural fixpoint, per-instance lock identity) + escape of mutex-guarded maps + census of goroutines started inside the wallet (effect check of their bodies)",
      "Decides only the lock-discipline half of 'free of data races': for every field of the wallet's shared types stored after construction, every store shares a held lock with every other access of that field, for all interleavings (a lockset fact is schedule-independent). Entry locksets are computed, not assumed; a.mu counts only when the locked object is the accessed object.",
      "Trusted: go/ssa, sync.Mutex semantics, composite literals under construction are unshared. NOT decided: linearizability/real-time order, races on pointees reached through method calls on loaded pointers (SecretKey.Zero, ManagedAddress fields), races inside mass-core/leveldb.",
      "DESIGN.md §4 C14")

claim("C13",
      "blocking-under-lock analysis with progress sets + channel close/send discipline + lock-order graph + queue lockset",
      "Static necessary conditions of 'every request returns, stopping terminates, no panic': every blocking operation reached while a keeper lock is held (computed locksets, may-block call summaries) is unblocked only by goroutines that never acquire a conflicting lock; every close of a field-held channel is once-guarded and every send on a closable channel is under the closer's mutex behind the flag test; lock order acyclic; the plotter queue heap is accessed under its mutex by all concurrent code (v1 and v2 keepers). Holds for all interleavings and any number of queued requests because locksets and channel identities are schedule-independent. Four sites (send on the bounded request channel under stateLock) are a recorded known finding.",
      "Trusted: go/ssa, mass-core BaseService CAS serialisation (re-verified on its SSA), channel identity by field. NOT decided: general deadlock freedom/liveness, panics from nil items, lost stop request when StopWS races the start of a plot.",
      "DESIGN.md §4 C13")

claim("C09",
      "transition extraction from SSA vs documented table + write-lock lockset + dominance + who-may-call + must-pass-through of the keeper action in the API handlers",
      "Static: the set of state transitions that exist in both keepers (every writer of WorkSpace.state and of the per-state indexes, reconstructed as delete-old/set-new/store triples with their dominating membership guard) equals the documented table; every state effect of concurrently runnable code holds stateLock for writing; stop/remove/delete clear the plotter queue before any effect; exactly one plotter goroutine and only it calls Plot; the miner asks for SFMining and GetProofs offers only spaces passing the flag filter on the same state field that Info reports. Right level: the property quantifies over all histories and plotter interleavings; the extractor enumerates every transition that can ever execute.",
      "Trusted: go/ssa, the documented table as frozen from engine.go, single-threadedness before Start. NOT decided: liveness, that the popped queue item is the plotting space, linearisation of unlocked state reads in proof queries.",
      "DESIGN.md §4 C09")

claim("C15",
      "edge-cut dominance of rejection/never-exceed tests + provenance of directory and shortfall values + constant evaluation + must-pass-through of the keeper operation in the API/mining wrappers",
      "Decides the rejection, placement, reuse-first and never-exceed STRUCTURE only: the minimum-size test dominates all work; every creation lies behind the allow flag and the success edge of a free-disk check of the shortfall; per-path fill/check/creation use the same requested directory which reaches the plot file path; generate runs only after an unfinished fill over the indexed spaces and continues from its total; selection/creation lie behind the comparison with the target for the very bit length used; smallest usable bit length = chain minimum.",
      "Trusted: go/ssa, PlotSize monotone. NOT decided: the arithmetic (exact totals, shortfall < smallest plot, exact counts) and persistence of the selection across restart — value facts.",
      "DESIGN.md §4 C15")

claim("C19",
      "provenance of every leveldb key + edge-cut dominance of name validation + handle discipline + sibling agreement (clone comparison) + who-may-delete census + subtree deletion order + batch fate (every allocated leveldb.Batch reaches Write, followed through static callees)",
      "Structural isolation argument for the bucket store on every leveldb call site of package ldb: keys come only from the one key constructor (path+separator+key), index keys, or prefix iterators; every index write is dominated by validation of the name against the join separator; write buckets use only their own transaction, read-only buckets cannot write, BeginTx/Commit/Rollback map to the leveldb transaction; scans use path+separator prefixes and pathLen=len(path); the two bucket kinds agree operation-for-operation; db.Update has the rollback/commit shape.",
      "Trusted: go/ssa, goleveldb transaction semantics, util.BytesPrefix. NOT decided: map semantics for all operation sequences; adversarial keys beyond the separator rule; rdb (rocksdb tag, cgo) cannot be loaded and is out of scope.",
      "DESIGN.md §4 C19")

claim("C20",
      "handler provenance + edge-cut dominance in the 403 wrapper + constant evaluation (LAN table, listen address) + allow-edge census + clone comparison with the chain library + no-float effect check + error-flow of the transaction rendering loops",
      "Static: the only HTTP listener of the node serves accessControlHandler(inner, decision built from cfg.Whitelist/AllowedLan); inside, the inner handler runs only on the true edge of the decision on req.RemoteAddr and the false edge answers 403; gRPC binds a loopback constant; the LAN table evaluates to RFC 1918; every `return true` of the decision function is behind one of the four admitted tests and the lists come only from configuration; api.getBindingTarget is the chain library's construction and is fed (compressed key, default type, bl) / (plot id, chia type, k); the address derives from the same key; no floating point on the amount path.",
      "Trusted: go/ssa, net/http handler semantics, mass-core as the chain library's definition. Exception recorded: the opt-in pprof server on http.DefaultServeMux (verified to carry no API handler). NOT decided: the allow decision for all address spellings, canonical form and round trip of all amounts (values).",
      "DESIGN.md §4 C20")

claim("C16",
      "table agreement (decoder cases vs MsgType results) + field-crossing cover by name + interprocedural nil-safety of JSON-decoded pointers + error-flow + edge-cut frame bound",
      "Static: every MsgType constant has a decoder case constructing the type whose MsgType() is that constant, the encoder prefixes the message's own type, the prefix is length-checked before it is read; every wire field is written from and restored into the same-named in-memory field and every in-memory field crosses or is a documented non-wire field; JSON-nullable pointers are nil-tested before any dereference across calls; every decoder error is returned; the frame size is bounded before allocation. Three obligations about pool-contract proofs are a recorded known finding.",
      "Trusted: go/ssa, encoding/json/uuid/chiapos decoders do not panic. NOT decided: equality after round trip for all values (encoder injectivity, big.Int sign), third-party decoder totality.",
      "DESIGN.md §4 C16")

claim("C17",
      "stop-protocol shape check + wait-group discipline + channel close/send discipline + cancellation-arm rule + blocking-under-lock + call pairing + routing provenance + lockset of the current-task field + worker-pool option census",
      "Decides ONLY the no-panic / prompt-return structure and two routing bindings of the cluster layer: CAS-guarded stop protocol of every component; every counted goroutine is added before start and defers Done; every channel field is closed once by its owning goroutine or under the task lock with unregistering, and every send on a closable channel is recover-guarded / in the closing function / under the closer's lock; every blocking operation of a waited goroutine has a cancellation arm; no blocking send under the task lock; AddTask paired with a deferred RemoveTask of the same request; a report is sent on the channel looked up by its own task id and carries the reporting collector's id; the current broadcast task (replayed to late subscribers) is read and written under one common lock (violated on the current tree: known finding D20, four accesses).",
      "Trusted: go/ssa, context cancellation, ants.Pool.Submit treated as asynchronous. NOT decided (not applicable to static analysis in reach): exactly-once delivery beyond the lock discipline of the current-task field, per-connection order, behaviour for all topologies and drop points.",
      "DESIGN.md §4 C17")

claim("C08",
      "provenance of the winning proof + edge-cut dominance of target/timestamp/acceptance gates + same-block pairing + loop re-test (reachability with stop set) + who-may-access",
      "Structural skeleton of a mining round on every CFG path: the returned proof passed getValidProofs and getBindingProofs of the mining spaces' proofs for the template challenge; a template is built only behind best-quality > target(template timestamp) with qualities verified per proof and slot; slot and timestamp advance in one block; every slot evaluation re-tests quit and the stale monitor and is bounded by now+allowAhead; PoC hash after the header is final and signed by the winning space; ProcessBlock only after the timestamp passed; a height is recorded only after acceptance and never solved again; the double-mining map is touched by the generator's functions only.",
      "Trusted: go/ssa, mass-core PoCTemplate/VerifiedQuality. NOT decided: that the maximum is the maximum and the slot the earliest (values/time); timing; engine.v2 miner (outside the property's anchors).",
      "DESIGN.md §4 C08")

claim("C18",
      "forward label (taint) analysis with shape-recognised sanitisers and a typestate refinement (isPrivate)",
      "Decides ONLY width discipline, a necessary condition of BIP32 agreement and of text round-trip self-consistency: no minimal-length big-endian integer ((*big.Int).Bytes()) reaches a fixed-offset copy, an append into a serialisation buffer, a hash write or base58 without left-padding; pad helpers right-align. Interprocedural over hdkeychain + mnemonic code, field-based with the label of ExtendedKey.key refined by the isPrivate flag (pairing verified at the constructor call sites). The hardened-derivation copy of a possibly short private key is a recorded known finding.",
      "Trusted: go/ssa; SetBytes/ScalarBaseMult/PrivKeyFromBytes width-insensitive. NOT decided (not applicable to static analysis): equality with BIP32/BIP39 for all inputs, public/private derivation agreement, mnemonic round trip.",
      "DESIGN.md §4 C18")

claim("C06",
      "lockset + dominance + affine/provenance rules on the counter read-modify-write and ordinal identity",
      "Static necessary conditions of once-only issuance with stable ordinals: in nextAddresses the counter read dominates the write of the same bucket and branch polarity under the address-manager lock, the written value is the read value advanced by +1 steps only, the recorded derivation path equals the Child() arguments (affine equality on the index), each key is persisted under its own (branch, index); GenerateNewPublicKey returns the persisted index of the returned key from the one external address issued inside db.Update under the manager lock; GetPublicKeyOrdinal returns the index stored under the argument's address; the keeper names plots from one issuance.",
      "Trusted: go/ssa, C12-B and C11-LOAD for the transaction and keeper gates. NOT decided: uniqueness across restarts as a value fact, an extra +1 (gap), behaviour under concurrency beyond lock discipline.",
      "DESIGN.md §4 C06")
claim("C05",
      "provenance + polarity check on the branch-selection phi + edge-cut dominance of the signing gates + guard census of the import routine's persisting calls (dominance by counter tests)",
      "Static binding rules: a signing request is looked up under the address of the requested key and signs the caller's digest with the manager that owns the address; the private key cached for an address is Child(own index) of the branch key selected by its own branch (external test → Child(ExternalBranch) key, else Child(InternalBranch)); recorded derivation paths equal the Child() arguments; Sign only behind unlocked and a non-nil key of addrs[addr]; unknown keys fail first; the keeper signs with the key of the space named by the id.",
      "Trusted: go/ssa, hdkeychain.Child semantics. NOT decided: curve arithmetic, agreement of public-side and private-side derivation.",
      "DESIGN.md §4 C05")

claim("C03",
      "edge-cut dominance of credential checks + who-may-write on credential/flags + eraser cover rule + derived-key lifetime (pairing) rule + control-dependence of Lock's wipe on the unlocked flag (dominance)",
      "Static necessary conditions of 'private keys usable only with the current passphrase; Lock wipes them', on every CFG path: unlock, export, delete, private/public passphrase change and import store their effects only behind the success edge of a check of the caller's passphrase against the stored credential (salted hash or scrypt digest); a keystore is created/imported only under the passphrase that an existing keystore accepts (same variable as the one it is stored under); the stored credential and the unlocked flags are written only by unlock/change/load/erase; clearPrivKeys zeroes every private-hierarchy field that any function fills (and drops the pointers other code tests for nil) and Lock applies it to every keystore; every scrypt key derived from the private passphrase is zeroed or consumed by unlocking on all paths to the operation's return (found D4, fixed); passphrase change covers all keystores in one transaction; Unlock marks the manager unlocked only if no keystore failed; a keystore added to an unlocked manager is unlocked with it.",
      "Trusted: go/ssa, snacl.SecretKey.DeriveKey verifies the digest, private-hierarchy fields identified by struct field name. NOT decided: behaviour after a restart as a value fact, effectiveness of zeroing at machine level (GC copies), partial unlock when a later keystore fails for a non-passphrase reason, timing side channels.",
      "DESIGN.md §4 C03")

claim("C02",
      "error-flow on storage reads + writer/reader key-table agreement + loader provenance (backward slices) + memory↔store pairing with must-pass-through",
      "Static necessary conditions of 'closing and reopening presents the same wallet', for all paths: (ERR) no bucket read error in the keystore package is swallowed or turned into an absent key (found fetchCryptoKeys/fetchMasterHDKeys/duplicate-seed drops, fixed); (KEYS) every key any operation writes is read back by the open/load path (or export) and every key the loader needs is written at creation and import; (PROV) each field of the reloaded AddrManager derives from the read of its own key with the right branch polarity, and a reloaded address takes branch/index/key from one stored entry; (PAIR) for every mutating operation a durable key written in its transaction has its memory field refreshed before every successful return, and vice versa (argument-sensitive put summaries); (OPEN) opening loads every listed keystore under its own id, fails as a whole, and decrypts only behind DeriveKey(public passphrase) on the stored parameters.",
      "Trusted: go/ssa, goleveldb, frozen field↔key pairing table. NOT decided: equality of the reopened image with the running one as values for all histories; the store's own recursive bucket deletion (poc/wallet/db/ldb) — see seed C02-b; content of encrypted blobs.",
      "DESIGN.md §4 C02")

claim("C01",
      "writer/reader agreement over the keystore file (backward slices through read helpers, forward into put helpers) + branch-polarity typestate + edge-cut gates + must-pass-through of export and file write in the API handler",
      "Static necessary conditions of 'an exported keystore restores the same wallet': every file field import consumes is filled by export from the durable key it stands for and stored back under that key; the external and internal counters keep their branch through fetchChildNum, the file, putLastIndex/updateChildNum and memory, and each of import's two re-derivation loops derives from, labels and persists its own branch; nothing is stored unless the scrypt digest check with the caller's old passphrase and both secretbox opens succeeded; every consumed field is authenticated (4 known findings: Remark, Account, ExternalChildNum, InternalChildNum are not — D19, reproduced); a present keystore id stops the import before any write and the bucket is created fresh; delete removes bucket content, the bucket under its own name and the account id on every committing path.",
      "Trusted: go/ssa, secretbox authenticity, scrypt digest check. NOT decided: equality of the re-derived addresses/keys as values (BIP32 arithmetic) for all seeds and counts; signing after unlock (C05-BIND); 'rejected import leaves the wallet unchanged' is C12's single-transaction rule.",
      "DESIGN.md §4 C01")

claim("C04",
      "information-flow (taint) rule on backward slices: named sources, Encrypt/declassifier cuts, field-based heap, call-site-resolved parameters; key-hierarchy typestate for every Encrypt; use-after-Zero typestate",
      "Decides the code-shape half of 'no secret is stored, exported or logged in the clear', for every path: the value of every Bucket.Put of the keystore package, every argument of every log call in the wallet/API/server/command packages (including whole request or key objects printed through interface{}), every formatted message of the wallet packages, every field export writes into the keystore file, every API file write and response field has no secret source (passphrase/seed parameters and request fields, key objects, generator results, plaintext of private-hierarchy Decrypt) in its backward slice once cut at Encrypt and the public-key/hash declassifiers; every Encrypt of a secret uses a key of the protecting hierarchy (inferred from how the key was made, checked at every call site of key-typed parameters); and no encrypting key can have been zeroed before use.",
      "Trusted: go/ssa, declassifier table, source naming at exported entry points. Assumes external error values carry no argument bytes. NOT decided: that ciphertext hides plaintext; bytes leveldb writes beyond what Put receives; map-element contents held in struct fields; flows through reflection or the chain library.",
      "DESIGN.md §4 C04")
